// Package gen holds the generators (rapid) and the pretty printer for the
// program model in package ref.
package gen

import (
	"fmt"
	"strconv"

	"pgregory.net/rapid"

	. "verif/harness/ref"
)

// Profile selects a sub-language.
type Profile struct {
	Common       bool // the subset both backends define (C04): boolean operands for and/or/not, no collection printing, same-kind equality …
	NoFloats     bool
	MaxDepth     int  // expression depth
	Unicode      bool // strings beyond ASCII
	HTMLChars    bool // strings with & < > " '
	BigInts      bool // 32-bit and 53-bit integer literals
	Directives   bool
	Messages     bool
	Custom       bool // functions and print directives registered by the application (verifFn, verifBang)
	NestedPlural bool // a plural may stand in a case of another plural
	RawBytes     bool // template text with bytes that are not valid UTF-8 (a file in a legacy 8-bit encoding)
	CustomAlias  bool // the application also registered its string function under a second name (aTag)
}

// Ty is the generator's static type of an expression or variable.
type Ty struct {
	K      Kind
	Elem   *Ty     // list element type
	MinLen int     // list: guaranteed length
	Fields []Field // map: record fields, all present
	Opt    bool    // may be absent (undefined) or null: only used in null-tolerant positions
}

type Field struct {
	Name string
	T    *Ty
}

var (
	TBool   = &Ty{K: Bool}
	TInt    = &Ty{K: Int}
	TFloat  = &Ty{K: Float}
	TString = &Ty{K: String}
	TNull   = &Ty{K: Null}
)

func (t *Ty) String() string {
	switch t.K {
	case List:
		return fmt.Sprintf("list<%s>[%d]", t.Elem, t.MinLen)
	case Map:
		s := "map{"
		for _, f := range t.Fields {
			s += f.Name + ":" + f.T.String() + ","
		}
		return s + "}"
	}
	return t.K.String()
}

type Var struct {
	Name string
	T    *Ty
	Loop bool // loop variable: index/isFirst/isLast apply
	used *bool
}

// Scope is the static environment during generation.
type Scope struct {
	Vars  []Var
	HasIJ bool
	IJ    *Ty // record type of the injected data
}

func (s *Scope) with(v Var) *Scope {
	n := &Scope{HasIJ: s.HasIJ, IJ: s.IJ}
	n.Vars = append(append([]Var{}, s.Vars...), v)
	return n
}

// lookup returns the innermost variable of that name.
func (s *Scope) lookup(name string) *Var {
	for i := len(s.Vars) - 1; i >= 0; i-- {
		if s.Vars[i].Name == name {
			return &s.Vars[i]
		}
	}
	return nil
}

type Global struct {
	Name string
	T    *Ty
	V    Value
}

// G wraps the rapid source with the generation context.
type G struct {
	T       *rapid.T
	P       Profile
	Globals []Global
}

func (g *G) Intn(n int) int {
	if n <= 1 {
		return 0
	}
	return rapid.IntRange(0, n-1).Draw(g.T, "n")
}
func (g *G) Chance(percent int) bool  { return rapid.IntRange(0, 99).Draw(g.T, "p") >= 100-percent } // shrinks towards false
func (g *G) Pick(xs ...string) string { return xs[g.Intn(len(xs))] }

// Weighted picks an index with the given weights.
func (g *G) Weighted(ws ...int) int {
	total := 0
	for _, w := range ws {
		total += w
	}
	x := g.Intn(total)
	for i, w := range ws {
		if x < w {
			return i
		}
		x -= w
	}
	return len(ws) - 1
}

var (
	asciiWords = []string{"", "a", "b", "abc", "hello world", "x y", "Zed", "0", "42", "true", "null", "a-b_c", "end."}
	htmlWords  = []string{"<", ">", "&", "\"", "'", "<b>", "a&b", "</script>", "&amp;", "&lt;", "x<y>z", "it's", "\"q\"", "<a href='x'>"}
	uniWords   = []string{"é", "日本", "ü ö", "π≈3", "𝄞", "a b", " ", "naïve", "上", "不三", "a†b", "č", "x\u2009y", "Ġ", "😀x", "a\ufeffb", "\ufeff"}
	ctlWords   = []string{"a\nb", "a\tb", "\r\n", "x\\y", "back\\slash", "tab\t", "C:\\", "\\", "end\\\\", "'\\", "\\'"}
)

func (g *G) StringValue() string {
	pools := [][]string{asciiWords}
	if g.P.HTMLChars {
		pools = append(pools, htmlWords, htmlWords)
	}
	if g.P.Unicode {
		pools = append(pools, uniWords, ctlWords)
	}
	p := pools[g.Intn(len(pools))]
	s := p[g.Intn(len(p))]
	if g.Chance(20) {
		p2 := pools[g.Intn(len(pools))]
		s += p2[g.Intn(len(p2))]
	}
	return s
}

func (g *G) IntValue() int64 {
	switch g.Weighted(60, 20, 10, 10) {
	case 0:
		return int64(g.Intn(21)) - 5
	case 1:
		return int64(g.Intn(2001)) - 1000
	case 2:
		if g.P.BigInts {
			return []int64{1 << 31, -(1 << 31), 1<<31 - 1, 1<<53 - 1, -(1<<53 - 1), 1 << 40, 65536, 1000000}[g.Intn(8)]
		}
		return int64(g.Intn(100))
	}
	return int64(g.Intn(3))
}

// floatTexts are float literal spellings (dyadic values, so arithmetic is exact
// in both backends) in every form the number grammar allows.
var floatTexts = []string{"0.5", "1.5", "2.0", "0.25", "3.75", "10.0", "1.0", "0.125", "100.5", "2.5e2", "1e3", "5e-1", "1.25e+2", "0.0", "1500000.0", "6.5", "1e6", "1.5e6", "0.001953125"}

func (g *G) FloatText() string { return floatTexts[g.Intn(len(floatTexts))] }

// Value draws a value of type t.
func (g *G) Value(t *Ty) Value {
	switch t.K {
	case Null:
		return N()
	case Bool:
		return B(g.Chance(50))
	case Int:
		return I(g.IntValue())
	case Float:
		f, _ := strconv.ParseFloat(g.FloatText(), 64)
		if g.Chance(30) {
			f = -f
		}
		if f == 0 {
			f = 0 // no negative zero
		}
		return F(f)
	case String:
		return S(g.StringValue())
	case List:
		n := t.MinLen + g.Intn(3)
		items := make([]Value, n)
		for i := range items {
			items[i] = g.Value(t.Elem)
		}
		return L(items...)
	case Map:
		m := map[string]Value{}
		for _, f := range t.Fields {
			m[f.Name] = g.Value(f.T)
		}
		return M(m)
	}
	return N()
}

var fieldNames = []string{"a", "b", "x", "name", "id", "items", "foo", "bar", "n", "k1", "key_2", "aB"}

// Type draws a type of bounded depth.
func (g *G) Type(depth int) *Ty {
	if depth <= 0 {
		return g.ScalarType()
	}
	switch g.Weighted(60, 20, 20) {
	case 1:
		return &Ty{K: List, Elem: g.Type(depth - 1), MinLen: g.Intn(3)}
	case 2:
		n := 1 + g.Intn(3)
		t := &Ty{K: Map}
		seen := map[string]bool{}
		for i := 0; i < n; i++ {
			name := fieldNames[g.Intn(len(fieldNames))]
			if seen[name] {
				continue
			}
			seen[name] = true
			t.Fields = append(t.Fields, Field{name, g.Type(depth - 1)})
		}
		return t
	}
	return g.ScalarType()
}

func (g *G) ScalarType() *Ty {
	if g.P.NoFloats {
		return []*Ty{TBool, TInt, TInt, TString, TString}[g.Intn(5)]
	}
	return []*Ty{TBool, TInt, TInt, TFloat, TString, TString}[g.Intn(6)]
}

// ---------------------------------------------------------------------------
// data reference paths

type path struct {
	e *Expr
	t *Ty
	v *Var
}

func (g *G) keyAccess(name string, nullsafe bool) Access {
	if g.Chance(30) {
		return Access{Kind: "expr", NullSafe: nullsafe, Expr: &Expr{Op: "str", S: name}}
	}
	return Access{Kind: "key", NullSafe: nullsafe, Key: name}
}

func (g *G) indexAccess(i int, nullsafe bool) Access {
	switch g.Weighted(50, 30, 20) {
	case 1:
		return Access{Kind: "expr", NullSafe: nullsafe, Expr: &Expr{Op: "int", I: int64(i)}}
	case 2:
		// an index computed by arithmetic
		k := int64(g.Intn(3))
		return Access{Kind: "expr", NullSafe: nullsafe, Expr: &Expr{Op: "-", Args: []*Expr{{Op: "int", I: int64(i) + k}, {Op: "int", I: k}}, Tight: g.Chance(50)}}
	}
	return Access{Kind: "index", NullSafe: nullsafe, Index: i}
}

// paths enumerates the data references of scope that have type want (nil = any).
func (g *G) paths(sc *Scope, want func(*Ty) bool) []path {
	var out []path
	var rec func(e *Expr, t *Ty, v *Var, depth int)
	rec = func(e *Expr, t *Ty, v *Var, depth int) {
		if t.Opt {
			return
		}
		if want(t) {
			out = append(out, path{e, t, v})
		}
		if depth >= 3 {
			return
		}
		switch t.K {
		case Map:
			for _, f := range t.Fields {
				ne := *e
				ne.Access = append(append([]Access{}, e.Access...), Access{Kind: "key", Key: f.Name})
				rec(&ne, f.T, v, depth+1)
			}
		case List:
			for i := 0; i < t.MinLen && i < 2; i++ {
				ne := *e
				ne.Access = append(append([]Access{}, e.Access...), Access{Kind: "index", Index: i})
				rec(&ne, t.Elem, v, depth+1)
			}
		}
	}
	seen := map[string]bool{}
	for i := len(sc.Vars) - 1; i >= 0; i-- {
		v := &sc.Vars[i]
		if seen[v.Name] {
			continue // shadowed
		}
		seen[v.Name] = true
		rec(&Expr{Op: "ref", Name: v.Name}, v.T, v, 0)
	}
	if sc.HasIJ && sc.IJ != nil {
		rec(&Expr{Op: "ref", Name: "ij"}, sc.IJ, nil, 0)
	}
	return out
}

// refExpr finalises a path: access spelling variants, null-safe markers.
func (g *G) refExpr(p path) *Expr {
	e := &Expr{Op: "ref", Name: p.e.Name}
	for _, a := range p.e.Access {
		ns := g.Chance(15)
		if a.Kind == "key" {
			e.Access = append(e.Access, g.keyAccess(a.Key, ns))
		} else {
			e.Access = append(e.Access, g.indexAccess(a.Index, ns))
		}
	}
	if p.v != nil && p.v.used != nil {
		*p.v.used = true
	}
	return e
}

func isK(k Kind) func(*Ty) bool { return func(t *Ty) bool { return t.K == k } }

func sameTy(a, b *Ty) bool {
	if a.K != b.K || a.Opt != b.Opt {
		return false
	}
	switch a.K {
	case List:
		return sameTy(a.Elem, b.Elem) && a.MinLen >= b.MinLen
	case Map:
		for _, fb := range b.Fields {
			ok := false
			for _, fa := range a.Fields {
				if fa.Name == fb.Name && sameTy(fa.T, fb.T) {
					ok = true
				}
			}
			if !ok {
				return false
			}
		}
		return true
	}
	return true
}

// ---------------------------------------------------------------------------
// expressions by type

func (g *G) deco(e *Expr) *Expr {
	if g.Chance(12) {
		e.Paren = true
	}
	if IsBinary(e.Op) && g.Chance(25) {
		e.Tight = true
	}
	return e
}

func lit(v Value) *Expr {
	switch v.K {
	case Null:
		return &Expr{Op: "null"}
	case Bool:
		return &Expr{Op: "bool", B: v.B}
	case Int:
		return &Expr{Op: "int", I: v.I}
	case Float:
		return &Expr{Op: "float", Text: floatLit(v.F)}
	case String:
		return &Expr{Op: "str", S: v.S}
	case List:
		e := &Expr{Op: "list"}
		for _, it := range v.L {
			e.Args = append(e.Args, lit(it))
		}
		return e
	case Map:
		e := &Expr{Op: "map"}
		for _, k := range SortedKeys(v.M) {
			e.Keys = append(e.Keys, k)
			e.Args = append(e.Args, lit(v.M[k]))
		}
		return e
	}
	return &Expr{Op: "null"}
}

// Lit turns a value into a literal expression.
func Lit(v Value) *Expr { return lit(v) }

func floatLit(f float64) string {
	s := strconv.FormatFloat(f, 'f', -1, 64)
	for _, c := range s {
		if c == '.' {
			return s
		}
	}
	return s + ".0"
}

func (g *G) literal(t *Ty) *Expr {
	v := g.Value(t)
	e := lit(v)
	switch e.Op {
	case "int":
		if e.I >= 0 && g.Chance(10) {
			e.Hex = true
		}
	case "float":
		if v.F >= 0 && g.Chance(50) {
			// keep the generated spelling (exponent forms etc.)
			for _, txt := range floatTexts {
				if f, _ := strconv.ParseFloat(txt, 64); f == v.F {
					e.Text = txt
				}
			}
		}
	case "str":
		if g.Chance(15) {
			e.Esc = 1
		} else if g.Chance(10) {
			e.Esc = 2
		} else if g.Chance(10) {
			e.Esc = 3
		}
	}
	return e
}

// Expr generates an expression of static type want in scope sc.
func (g *G) Expr(sc *Scope, want *Ty, depth int) *Expr {
	return g.deco(g.expr1(sc, want, depth))
}

func (g *G) leaf(sc *Scope, want *Ty) *Expr {
	ps := g.paths(sc, func(t *Ty) bool { return sameTy(t, want) })
	if len(ps) > 0 && g.Chance(65) {
		return g.refExpr(ps[g.Intn(len(ps))])
	}
	if !g.P.Common || want.K != Map && want.K != List {
		for _, gl := range g.Globals {
			if sameTy(gl.T, want) && g.Chance(25) {
				return &Expr{Op: "global", Name: gl.Name}
			}
		}
	}
	return g.literal(want)
}

func (g *G) num(sc *Scope, depth int) (*Expr, *Ty) {
	if !g.P.NoFloats && g.Chance(30) {
		return g.Expr(sc, TFloat, depth), TFloat
	}
	return g.Expr(sc, TInt, depth), TInt
}

func (g *G) anyPrim(sc *Scope, depth int) (*Expr, *Ty) {
	t := g.ScalarType()
	return g.Expr(sc, t, depth), t
}

func (g *G) loopVars(sc *Scope) []*Var {
	var out []*Var
	seen := map[string]bool{}
	for i := len(sc.Vars) - 1; i >= 0; i-- {
		v := &sc.Vars[i]
		if seen[v.Name] {
			continue
		}
		seen[v.Name] = true
		if v.Loop {
			out = append(out, v)
		}
	}
	return out
}

func (g *G) useVar(v *Var) *Expr {
	if v.used != nil {
		*v.used = true
	}
	return &Expr{Op: "ref", Name: v.Name}
}

func bin(op string, a, b *Expr) *Expr       { return &Expr{Op: op, Args: []*Expr{a, b}} }
func call(name string, args ...*Expr) *Expr { return &Expr{Op: "call", Name: name, Args: args} }

func (g *G) optPaths(sc *Scope) []*Var {
	var out []*Var
	seen := map[string]bool{}
	for i := len(sc.Vars) - 1; i >= 0; i-- {
		v := &sc.Vars[i]
		if seen[v.Name] {
			continue
		}
		seen[v.Name] = true
		if v.T.Opt {
			out = append(out, v)
		}
	}
	return out
}

// optFields lists null-safe accesses into optional (possibly absent or null)
// map and list variables: $opt?.field, $opt?[0]. Their value may be null, so
// they are only used in null-tolerant positions.
func (g *G) optFields(sc *Scope) (out []path) {
	for _, v := range g.optPaths(sc) {
		switch v.T.K {
		case Map:
			for _, f := range v.T.Fields {
				acc := Access{Kind: "key", Key: f.Name, NullSafe: true}
				if g.Chance(30) {
					acc = Access{Kind: "expr", Expr: &Expr{Op: "str", S: f.Name}, NullSafe: true}
				}
				out = append(out, path{e: &Expr{Op: "ref", Name: v.Name, Access: []Access{acc}}, t: f.T, v: v})
			}
		case List:
			out = append(out, path{e: &Expr{Op: "ref", Name: v.Name, Access: []Access{{Kind: "index", Index: 0, NullSafe: true}}}, t: v.T.Elem, v: v})
		}
	}
	return out
}

func (g *G) useOptField(p path) *Expr {
	if p.v != nil && p.v.used != nil {
		*p.v.used = true
	}
	return p.e
}

func (g *G) expr1(sc *Scope, want *Ty, depth int) *Expr {
	if depth <= 0 {
		return g.leaf(sc, want)
	}
	d := depth - 1
	// generic forms available for every type
	switch g.Weighted(50, 8, 6, 4) {
	case 1: // ternary
		return &Expr{Op: "tern", Args: []*Expr{g.cond(sc, d), g.Expr(sc, want, d), g.Expr(sc, want, d)}}
	case 2: // elvis: optional ?: default, or non-null ?: anything
		if ofs := g.optFields(sc); len(ofs) > 0 && g.Chance(50) {
			for _, of := range ofs {
				if sameTy(of.t, want) && of.t.K != List {
					return bin("?:", g.useOptField(of), g.Expr(sc, want, d))
				}
			}
		}
		if opts := g.optPaths(sc); len(opts) > 0 {
			for _, v := range opts {
				base := *v.T
				base.Opt = false
				if sameTy(&base, want) {
					return bin("?:", g.useVar(v), g.Expr(sc, want, d))
				}
			}
		}
		if g.Chance(50) {
			return bin("?:", &Expr{Op: "null"}, g.Expr(sc, want, d))
		}
		return bin("?:", g.Expr(sc, want, d), g.Expr(sc, want, d))
	case 3:
		return g.leaf(sc, want)
	}
	switch want.K {
	case Bool:
		switch g.Weighted(20, 20, 15, 10, 10, 8, 5, 5, 5) {
		case 0: // comparison
			a, _ := g.num(sc, d)
			b, _ := g.num(sc, d)
			return bin(g.Pick("<", ">", "<=", ">="), a, b)
		case 1: // equality
			if g.P.Common || g.Chance(70) {
				t := g.ScalarType()
				return bin(g.Pick("==", "!="), g.Expr(sc, t, d), g.Expr(sc, t, d))
			}
			a, _ := g.anyPrim(sc, d)
			b, _ := g.anyPrim(sc, d)
			return bin(g.Pick("==", "!="), a, b)
		case 2:
			return bin(g.Pick("and", "or"), g.cond(sc, d), g.cond(sc, d))
		case 3:
			return &Expr{Op: "not", Args: []*Expr{g.cond(sc, d)}}
		case 4:
			if (g.P.Common && len(g.optPaths(sc)) == 0) || g.Chance(50) {
				return call("isNonnull", g.Expr(sc, g.ScalarType(), d))
			}
			if ofs := g.optFields(sc); len(ofs) > 0 && g.Chance(50) {
				return call("isNonnull", g.useOptField(ofs[g.Intn(len(ofs))]))
			}
			if opts := g.optPaths(sc); len(opts) > 0 {
				return call("isNonnull", g.useVar(opts[g.Intn(len(opts))]))
			}
			return call("isNonnull", &Expr{Op: "null"})
		case 5:
			return call("strContains", g.Expr(sc, TString, d), g.Expr(sc, TString, d))
		case 6:
			if lv := g.loopVars(sc); len(lv) > 0 {
				return call(g.Pick("isFirst", "isLast"), g.useVar(lv[g.Intn(len(lv))]))
			}
			return call("hasData")
		case 7:
			return bin("==", g.Expr(sc, TNull, 0), &Expr{Op: "null"})
		}
		return g.leaf(sc, want)
	case Int:
		if g.P.Custom && g.Chance(12) {
			// the application's own function: the number of its arguments (none or one)
			if g.Chance(40) {
				return call("verifFn")
			}
			// (the function takes any value, also an undefined one: an optional param that may be absent)
			if opts := g.optPaths(sc); len(opts) > 0 && g.Chance(50) {
				return call("verifFn", g.useVar(opts[g.Intn(len(opts))]))
			}
			return call("verifFn", g.Expr(sc, g.ScalarType(), d))
		}
		switch g.Weighted(30, 8, 8, 8, 8, 6, 6, 4, 4) {
		case 0:
			return bin(g.Pick("+", "-", "*"), g.Expr(sc, TInt, d), g.Expr(sc, TInt, d))
		case 1:
			m := int64(1 + g.Intn(9))
			return bin("%", g.Expr(sc, TInt, d), &Expr{Op: "int", I: m})
		case 2:
			return &Expr{Op: "neg", Args: []*Expr{g.Expr(sc, TInt, d)}}
		case 3:
			lt := &Ty{K: List, Elem: g.ScalarType()}
			return call("length", g.Expr(sc, lt, d))
		case 4:
			if g.P.NoFloats {
				return call(g.Pick("min", "max"), g.Expr(sc, TInt, d), g.Expr(sc, TInt, d))
			}
			return call(g.Pick("floor", "ceiling", "round"), g.Expr(sc, TFloat, d))
		case 5:
			return call(g.Pick("min", "max"), g.Expr(sc, TInt, d), g.Expr(sc, TInt, d))
		case 6:
			if lv := g.loopVars(sc); len(lv) > 0 {
				return call("index", g.useVar(lv[g.Intn(len(lv))]))
			}
			return call("randomInt", &Expr{Op: "int", I: 1})
		case 7:
			mt := &Ty{K: Map, Fields: []Field{{"a", TInt}}}
			return call("length", call("keys", g.Expr(sc, mt, d)))
		case 8:
			return call(g.Pick("floor", "ceiling"), g.Expr(sc, TInt, d))
		}
	case Float:
		switch g.Weighted(30, 20, 10, 10, 5) {
		case 0:
			a, ta := g.num(sc, d)
			b := g.Expr(sc, TFloat, d)
			if ta == TFloat && g.Chance(50) {
				a, b = b, a
			}
			return bin(g.Pick("+", "-", "*"), a, b)
		case 1:
			a, _ := g.num(sc, d)
			dv := []string{"2", "4", "0.5", "8", "2.0", "-2", "1", "0"}[g.Intn(8)] // (x/0 is an infinity or NaN)
			var de *Expr
			if dv == "0.5" || dv == "2.0" {
				de = &Expr{Op: "float", Text: dv}
			} else {
				n, _ := strconv.ParseInt(dv, 10, 64)
				de = &Expr{Op: "int", I: n}
			}
			return bin("/", a, de)
		case 2:
			return &Expr{Op: "neg", Args: []*Expr{g.Expr(sc, TFloat, d)}}
		case 3:
			a, _ := g.num(sc, d)
			return call(g.Pick("min", "max"), a, g.Expr(sc, TFloat, d))
		case 4:
			return call("round", g.Expr(sc, TFloat, d), &Expr{Op: "int", I: int64(1 + g.Intn(3))})
		}
	case String:
		if g.P.Custom && g.Chance(12) {
			// the application's own string function: its argument between angle brackets
			if g.P.CustomAlias && g.Chance(50) {
				return call("aTag", g.Expr(sc, TString, d))
			}
			return call("verifTag", g.Expr(sc, TString, d))
		}
		switch g.Weighted(40, 30) {
		case 0:
			a := g.Expr(sc, TString, d)
			var b *Expr
			if g.P.Common || g.Chance(70) {
				b, _ = g.anyPrim(sc, d)
			} else {
				b = g.Expr(sc, g.Type(1), d) // collections print as text too
			}
			if g.Chance(50) {
				a, b = b, a
			}
			return bin("+", a, b)
		case 1:
			return g.leaf(sc, want)
		}
	case List:
		switch g.Weighted(40, 30, 15) {
		case 0:
			n := want.MinLen + g.Intn(3)
			e := &Expr{Op: "list"}
			for i := 0; i < n; i++ {
				e.Args = append(e.Args, g.Expr(sc, want.Elem, d))
			}
			return e
		case 2:
			if want.Elem.K == Int && want.MinLen <= 2 && !g.P.Common {
				return call("range", &Expr{Op: "int", I: int64(want.MinLen + g.Intn(3))})
			}
		}
	case Map:
		switch g.Weighted(50, 20, 30) {
		case 0:
			e := &Expr{Op: "map"}
			for _, f := range want.Fields {
				e.Keys = append(e.Keys, f.Name)
				e.Args = append(e.Args, g.Expr(sc, f.T, d))
			}
			if !g.P.Common && g.Chance(30) {
				e.Keys = append(e.Keys, "extra")
				e.Args = append(e.Args, g.Expr(sc, g.ScalarType(), 0))
			}
			return e
		case 1:
			if len(want.Fields) >= 1 {
				k := g.Intn(len(want.Fields) + 1)
				// every field of the second map overrides: give the first map all fields, the second a subset
				second := &Ty{K: Map, Fields: want.Fields[:k]}
				return call("augmentMap", g.Expr(sc, want, d), g.Expr(sc, second, d))
			}
		}
	case Null:
		return &Expr{Op: "null"}
	}
	return g.leaf(sc, want)
}

// cond generates an expression used for its truthiness.
func (g *G) cond(sc *Scope, depth int) *Expr {
	if g.P.Common || g.Chance(60) {
		return g.Expr(sc, TBool, depth)
	}
	if opts := g.optPaths(sc); len(opts) > 0 && g.Chance(40) {
		return g.useVar(opts[g.Intn(len(opts))])
	}
	return g.Expr(sc, g.Type(1), depth)
}
