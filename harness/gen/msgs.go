package gen

import (
	. "verif/harness/ref"
)

// MsgGlobals are the globals the messages of MsgStress may print.
var MsgGlobals = map[string]Value{"msgs.FLAG": I(-5), "MX": S("[global MX]"), "lib.util.userName": S("[global userName]"),
	// two globals that end in the same segment and have the same value: still two placeholders
	"site.URL": S("//host"), "cdn.URL": S("//host"),
	// numbers for plural values
	"app.COUNT": I(2), "COUNT": I(1)}

// MsgStress builds a message whose placeholders deliberately collide on their
// base names: $a.x / $b.x / $x / $x_1 / $x_2, the same variable with
// different directives, HTML tags of every naming class, repeated
// placeholders; optionally a plural. The lets it needs are returned first.
func (g *G) MsgStress(allowPlural bool) []Cmd {
	type ph struct {
		let  Cmd
		expr *Expr
		dirs []Directive
	}
	str := func(s string) *Expr { return &Expr{Op: "str", S: s} }
	pool := []ph{
		{let: Cmd{K: "let", Var: "x", Expr: str("[x]")}, expr: &Expr{Op: "ref", Name: "x"}},
		{let: Cmd{K: "let", Var: "x_1", Expr: str("[x_1]")}, expr: &Expr{Op: "ref", Name: "x_1"}},
		{let: Cmd{K: "let", Var: "x_2", Expr: str("[x_2]")}, expr: &Expr{Op: "ref", Name: "x_2"}},
		{let: Cmd{K: "let", Var: "a", Expr: &Expr{Op: "map", Keys: []string{"x", "y"}, Args: []*Expr{str("[a.x]"), str("[a.y]")}}}, expr: &Expr{Op: "ref", Name: "a", Access: []Access{{Kind: "key", Key: "x"}}}},
		{let: Cmd{K: "let", Var: "b", Expr: &Expr{Op: "map", Keys: []string{"x"}, Args: []*Expr{str("[b.x]")}}}, expr: &Expr{Op: "ref", Name: "b", Access: []Access{{Kind: "key", Key: "x"}}}},
		{let: Cmd{K: "let", Var: "a", Expr: &Expr{Op: "map", Keys: []string{"x", "y"}, Args: []*Expr{str("[a.x]"), str("[a.y]")}}}, expr: &Expr{Op: "ref", Name: "a", Access: []Access{{Kind: "key", Key: "y"}}}},
		{let: Cmd{K: "let", Var: "x", Expr: str("[x]")}, expr: &Expr{Op: "ref", Name: "x"}, dirs: []Directive{{Name: "noAutoescape"}}},
		{let: Cmd{K: "let", Var: "x", Expr: str("[x]")}, expr: &Expr{Op: "ref", Name: "x"}, dirs: []Directive{{Name: "id"}}},
		{let: Cmd{K: "let", Var: "userName", Expr: str("[userName]")}, expr: &Expr{Op: "ref", Name: "userName"}},
		{let: Cmd{K: "let", Var: "n2x", Expr: str("[n2x]")}, expr: &Expr{Op: "ref", Name: "n2x"}},
		{expr: &Expr{Op: "+", Args: []*Expr{{Op: "int", I: 1}, {Op: "int", I: 2}}}},
		{expr: &Expr{Op: "*", Args: []*Expr{{Op: "+", Args: []*Expr{{Op: "int", I: 1}, {Op: "int", I: 2}}}, {Op: "int", I: 3}}}},
		{expr: &Expr{Op: "+", Args: []*Expr{{Op: "int", I: 1}, {Op: "*", Args: []*Expr{{Op: "int", I: 2}, {Op: "int", I: 3}}}}}},
		{expr: str("lit")},
		// compile-time globals (MsgGlobals must be defined in the bundle)
		{expr: &Expr{Op: "global", Name: "msgs.FLAG"}},
		{expr: &Expr{Op: "global", Name: "MX"}},
		{expr: &Expr{Op: "global", Name: "lib.util.userName"}},
		{expr: &Expr{Op: "global", Name: "site.URL"}},
		{expr: &Expr{Op: "global", Name: "cdn.URL"}},
		// data references that do not end in a key (no name of their own: XXX as a placeholder, NUM as a plural value)
		{let: Cmd{K: "let", Var: "nums", Expr: &Expr{Op: "list", Args: []*Expr{{Op: "int", I: 1}, {Op: "int", I: 3}}}}, expr: &Expr{Op: "ref", Name: "nums", Access: []Access{{Kind: "index", Index: 0}}}},
		{let: Cmd{K: "let", Var: "nums", Expr: &Expr{Op: "list", Args: []*Expr{{Op: "int", I: 1}, {Op: "int", I: 3}}}}, expr: &Expr{Op: "ref", Name: "nums", Access: []Access{{Kind: "expr", Expr: &Expr{Op: "int", I: 1}}}}},
		{let: Cmd{K: "let", Var: "nm", Expr: &Expr{Op: "map", Keys: []string{"n"}, Args: []*Expr{{Op: "int", I: 2}}}}, expr: &Expr{Op: "ref", Name: "nm", Access: []Access{{Kind: "expr", Expr: str("n")}}}},
		// the same expression and directive names, other arguments: distinct placeholders
		{let: Cmd{K: "let", Var: "x", Expr: str("[x]")}, expr: &Expr{Op: "ref", Name: "x"}, dirs: []Directive{{Name: "truncate", Args: []*Expr{{Op: "int", I: 2}}}}},
		{let: Cmd{K: "let", Var: "x", Expr: str("[x]")}, expr: &Expr{Op: "ref", Name: "x"}, dirs: []Directive{{Name: "truncate", Args: []*Expr{{Op: "int", I: 3}}}}},
		{let: Cmd{K: "let", Var: "x", Expr: str("[x]")}, expr: &Expr{Op: "ref", Name: "x"}, dirs: []Directive{{Name: "truncate", Args: []*Expr{{Op: "int", I: 3}, {Op: "bool", B: false}}}}},
	}
	// identifiers from a small grammar, so that base names collide with each other and with the
	// suffixed names of other collision groups (x / x1 / x_1 / x_1_1 ...), and so that every kind of
	// word boundary occurs (toDoItem, userIdNo, URLPath, n2x, leading and trailing underscores).
	// Each message draws from two stems only; a variable is $ident or a key of one of three maps.
	stems := []string{"x", "name", "toDo", "userIdNo", "aBcDe", "URLPath", "n2x", "v", "a__b__c", "x___y____z", "is__a__bot", "a_b_c", "aB__cD_1__e"}
	sufs := []string{"", "", "1", "_1", "_2", "_1_1", "2", "12", "_", "X", "Id", "__3"}
	myStems := []string{stems[g.Intn(len(stems))], stems[g.Intn(len(stems))]}
	if g.Chance(60) {
		// a tight pool: one stem, plain and with one numeric suffix, so that whole collision groups
		// (X_1, X_2 / X_1_1, X_1_2) meet in one message
		myStems[1] = myStems[0]
		sufs = []string{"", g.Pick("1", "_1", "_2", "_1_1", "12")}
	}
	holderKeys := map[string][]string{}
	genIdent := func() ph {
		id := myStems[g.Intn(2)] + sufs[g.Intn(len(sufs))]
		if g.Chance(6) {
			id = "_" + id
		}
		holder := g.Pick("", "ha", "hb", "hc")
		if holder == "" {
			return ph{let: Cmd{K: "let", Var: id, Expr: str("[" + id + "]")}, expr: &Expr{Op: "ref", Name: id}}
		}
		seen := false
		for _, k := range holderKeys[holder] {
			seen = seen || k == id
		}
		if !seen {
			holderKeys[holder] = append(holderKeys[holder], id)
		}
		return ph{expr: &Expr{Op: "ref", Name: holder, Access: []Access{{Kind: "key", Key: id}}}}
	}
	tags := []string{"<a href=\"u\">", "</a>", "<b>", "</b>", "<br/>", "<br>", "<i>", "</i>", "<span class=\"c\">", "</span>", "<img src=\"i.png\"/>", "<a href=\"other\">", "<p>", "<li>", "<em>", "<h1>", "<A>", "<ul>", "</ul>", "<ol>", "</li>", "<h2>", "</h1>", "<input type=\"t\"/>", "<tBody>", "<TD>", "</em>", "<img src=\"j.png\">", "<br />", "<x1y>"}
	words := []string{"zero\ufeffwidth ", "Hello ", "you have ", " new items", " and ", "!", ", ", "Click ", "here", " from ", "{sp}", "{lb}", "{rb}", "{lb}"}

	if g.P.RawBytes {
		words = append(words, "caf\uf7e9 ", "caf\uf7e8 ", "\uf7ff", "na\uf7efve \uf7c3", "\uf7e2\uf782 ") // (see ref.ExpandRaw)
	}
	defined := map[string]bool{}
	var lets []Cmd
	use := func(p ph) Cmd {
		if p.let.K != "" && !defined[p.let.Var] {
			defined[p.let.Var] = true
			lets = append(lets, p.let)
		}
		return Cmd{K: "print", Expr: p.expr, Directives: p.dirs}
	}
	parts := func(n int) []Cmd {
		var out []Cmd
		for i := 0; i < n; i++ {
			switch g.Weighted(35, 45, 20) {
			case 0:
				w := words[g.Intn(len(words))]
				if w == "{sp}" || w == "{lb}" || w == "{rb}" {
					// (special character commands: the braces are text of the message, whatever follows them)
					out = append(out, Cmd{K: w[1:3]})
				} else {
					out = append(out, Cmd{K: "text", Text: w})
				}
			case 1:
				if g.Chance(50) {
					out = append(out, use(genIdent()))
				} else {
					out = append(out, use(pool[g.Intn(len(pool))]))
				}
			case 2:
				out = append(out, Cmd{K: "text", Text: tags[g.Intn(len(tags))]})
			}
		}
		return out
	}
	msg := Cmd{K: "msg", Desc: g.Pick("d", "greeting", "", "a \"quoted\" description", "two lines:\nthe second", "#, fuzzy\r\nmsgid \"x\""), Meaning: g.Pick("", "", "", "noun", "verb")}
	if allowPlural && g.Chance(30) {
		lets = append(lets, Cmd{K: "let", Var: "num", Expr: &Expr{Op: "int", I: int64(g.Intn(4))}})
		pl := Cmd{K: "plural", Expr: &Expr{Op: "ref", Name: "num"}}
		switch {
		case g.Chance(25):
			lets[len(lets)-1] = Cmd{K: "let", Var: "cnt", Expr: &Expr{Op: "map", Keys: []string{"num"}, Args: []*Expr{{Op: "int", I: int64(g.Intn(4))}}}}
			pl.Expr = &Expr{Op: "ref", Name: "cnt", Access: []Access{{Kind: "key", Key: "num"}}}
		case g.Chance(20):
			// a compile-time global as the plural value: named after the part behind its last dot
			lets = lets[:len(lets)-1]
			pl.Expr = &Expr{Op: "global", Name: g.Pick("msgs.FLAG", "app.COUNT", "COUNT")}
		case g.Chance(30):
			// a plural value without a name of its own - the same reference may also be printed in the cases
			lets = lets[:len(lets)-1]
			p := pool[len(pool)-6+g.Intn(3)] // (the three nameless references)
			use(p)
			pl.Expr = p.expr
		}
		seen := map[int]bool{}
		for i, n := 0, 1+g.Intn(3); i < n; i++ {
			k := []int{0, 1, 2, 3}[g.Intn(4)]
			if !seen[k] {
				seen[k] = true
				pl.Branches = append(pl.Branches, Branch{Int: k, Body: parts(1 + g.Intn(4))})
			}
		}
		if !g.Chance(6) { // (else: a plural whose {default} says nothing)
			pl.Else = parts(1 + g.Intn(4))
		}
		if g.P.NestedPlural && g.Chance(35) {
			// a plural inside a case of the plural (the sole content of that case), its own cases drawing
			// from the same placeholders: which of two gets which suffix is decided by the order of the walk
			lets = append(lets, Cmd{K: "let", Var: "num2", Expr: &Expr{Op: "int", I: int64(g.Intn(3))}})
			inner := Cmd{K: "plural", Expr: &Expr{Op: "ref", Name: "num2"}, Branches: []Branch{{Int: 1, Body: parts(1 + g.Intn(3))}}}
			if len(pl.Branches) > 0 && g.Chance(70) {
				inner.Else = pl.Branches[0].Body // (what the case said is what the inner plural says by default)
				pl.Branches[0].Body = []Cmd{inner}
			} else {
				inner.Else = pl.Else
				pl.Else = []Cmd{inner}
			}
		}
		msg.Body = []Cmd{pl}
	} else {
		n := 1 + g.Intn(10)
		if g.Chance(3) {
			n = 0 // an empty message
		} else if g.Chance(4) {
			n = 20 + g.Intn(15) // a long message: many placeholders, many of them colliding
		}
		msg.Body = parts(n)
	}
	for _, h := range []string{"ha", "hb", "hc"} {
		if keys := holderKeys[h]; len(keys) > 0 {
			m := &Expr{Op: "map"}
			for _, k := range keys {
				m.Keys = append(m.Keys, k)
				m.Args = append(m.Args, str("["+h+"."+k+"]"))
			}
			lets = append(lets, Cmd{K: "let", Var: h, Expr: m})
		}
	}
	return append(lets, msg)
}
