package gen

import (
	"unicode/utf16"
	"fmt"
	"strconv"
	"strings"

	. "verif/harness/ref"
)

// ---------------------------------------------------------------------------
// expressions

// QuoteSoy spells a Soy string literal. esc=0 uses the short escapes only where
// needed; esc=1 writes every character outside [A-Za-z0-9 ] in the BMP as \uXXXX.
func QuoteSoy(s string, esc int) string {
	var b strings.Builder
	b.WriteByte('\'')
	for _, r := range s {
		switch {
		case r == '\\':
			b.WriteString(`\\`)
		case r == '\'':
			b.WriteString(`\'`)
		case esc == 3 && (r == '\n' || r == '\r' || r == '\t'):
			b.WriteRune(r) // (a literal may run over several lines: the line break is one of its characters)
		case r == '\n':
			b.WriteString(`\n`)
		case r == '\r':
			b.WriteString(`\r`)
		case r == '\t':
			b.WriteString(`\t`)
		case r == '\b':
			b.WriteString(`\b`)
		case r == '\f':
			b.WriteString(`\f`)
		case r < 0x20 || r == 0x7f:
			fmt.Fprintf(&b, `\u%04X`, r)
		case esc == 1 && r < 0x10000 && !(r == ' ' || r >= '0' && r <= '9' || r >= 'a' && r <= 'z' || r >= 'A' && r <= 'Z'):
			fmt.Fprintf(&b, `\u%04X`, r)
		case esc == 1 && r >= 0x10000:
			// (a character outside the BMP as the pair of escapes of its two UTF-16 units)
			r1, r2 := utf16.EncodeRune(r)
			fmt.Fprintf(&b, `\u%04X\u%04X`, r1, r2)
		case esc == 2 && r == '"':
			b.WriteString(`\"`) // (the double quote may be escaped too)
		default:
			b.WriteRune(r)
		}
	}
	b.WriteByte('\'')
	return b.String()
}

func needsParen(parent *Expr, child *Expr, right bool) bool {
	pp, cp := Prec(parent.Op), Prec(child.Op)
	if cp >= 9 {
		return false
	}
	// elvis and the ternary share the lowest level and group from the right: a ?: b ? c : d is
	// a ?: (b ? c : d); a ternary as the left operand needs its parentheses
	if parent.Op == "?:" && child.Op == "tern" {
		return !right
	}
	if parent.Op == "?:" && child.Op == "?:" {
		return false // value is the same under either associativity
	}
	if cp < pp {
		return true
	}
	if cp > pp {
		return false
	}
	return right // binary operators are left associative
}

func startsWithMinus(e *Expr) bool {
	switch e.Op {
	case "neg":
		return true
	case "int":
		return e.I < 0 || e.Hex // the repository pins "-0x…" as invalid, so a hex literal is never written right after a minus
	case "float":
		return strings.HasPrefix(e.Text, "-")
	}
	if IsBinary(e.Op) || e.Op == "tern" {
		return !e.Paren && startsWithMinus(e.Args[0])
	}
	return false
}

// PrintExpr writes e with the parentheses the language needs (from the
// reference precedence table) plus the redundant ones the model asks for.
func PrintExpr(e *Expr) string {
	s := printExpr1(e)
	if e.Paren {
		return "(" + s + ")"
	}
	return s
}

func sub(parent, child *Expr, right bool) string {
	s := PrintExpr(child)
	if !child.Paren && needsParen(parent, child, right) {
		return "(" + s + ")"
	}
	return s
}

func printExpr1(e *Expr) string {
	switch e.Op {
	case "null":
		return "null"
	case "bool":
		return strconv.FormatBool(e.B)
	case "int":
		if e.Hex && e.I >= 0 {
			return "0x" + strings.ToUpper(strconv.FormatInt(e.I, 16))
		}
		return strconv.FormatInt(e.I, 10)
	case "float":
		return e.Text
	case "str":
		return QuoteSoy(e.S, e.Esc)
	case "list":
		parts := make([]string, len(e.Args))
		for i, a := range e.Args {
			parts[i] = PrintExpr(a)
		}
		body := strings.Join(parts, ", ")
		if len(parts) > 0 && (len(body)+len(parts))%6 == 4 {
			body += "," // (a comma may follow the last item)
		}
		return "[" + body + "]"
	case "map":
		if len(e.Args) == 0 {
			return "[:]"
		}
		parts := make([]string, len(e.Args))
		for i, a := range e.Args {
			parts[i] = QuoteSoy(e.Keys[i], 0) + ": " + PrintExpr(a)
		}
		body := strings.Join(parts, ", ")
		if (len(body)+len(parts))%6 == 3 {
			body += ", "
		}
		return "[" + body + "]"
	case "global":
		return e.Name
	case "ref":
		s := "$" + e.Name
		for _, a := range e.Access {
			q := ""
			if a.NullSafe {
				q = "?"
			}
			switch a.Kind {
			case "key":
				s += q + "." + a.Key
			case "index":
				s += q + "." + strconv.Itoa(a.Index)
			case "expr":
				s += q + "[" + PrintExpr(a.Expr) + "]"
			}
		}
		return s
	case "call":
		parts := make([]string, len(e.Args))
		for i, a := range e.Args {
			parts[i] = PrintExpr(a)
		}
		return e.Name + "(" + strings.Join(parts, ", ") + ")"
	case "neg":
		a := e.Args[0]
		s := PrintExpr(a)
		if !a.Paren && (Prec(a.Op) < 8 || startsWithMinus(a)) {
			s = "(" + s + ")"
		}
		return "-" + s
	case "not":
		a := e.Args[0]
		s := PrintExpr(a)
		if !a.Paren && Prec(a.Op) < 8 {
			s = "(" + s + ")"
		}
		return "not " + s
	case "tern":
		c, a, b := e.Args[0], e.Args[1], e.Args[2]
		cs := PrintExpr(c)
		if !c.Paren && Prec(c.Op) <= 1 {
			cs = "(" + cs + ")"
		}
		as := PrintExpr(a)
		bs := PrintExpr(b)
		return cs + " ? " + as + " : " + bs
	}
	if IsBinary(e.Op) {
		l, r := sub(e, e.Args[0], false), sub(e, e.Args[1], true)
		tight := e.Tight && e.Op != "and" && e.Op != "or" && e.Op != "?:" && e.Op != "/"
		if tight {
			return l + e.Op + r
		}
		return l + " " + e.Op + " " + r
	}
	panic("PrintExpr: unknown op " + e.Op)
}

// ---------------------------------------------------------------------------
// commands

// tag wraps the inside of a tag in single or, when it contains a brace, double braces.
func tag(inner string) string {
	// (also, as a spelling variation, for one tag length in seven)
	if strings.ContainsAny(inner, "{}") || len(inner)%7 == 3 {
		return "{{" + inner + "}}"
	}
	return "{" + inner + "}"
}

// AttrQuote writes a double-quoted attribute value.
// AttrQuote writes an attribute value: the text as it is between double quotes, a double quote inside
// it written \" (the one thing the value cannot hold as it is). A backslash is a backslash: the value of
// data="..." is an expression, whose string literals have escapes of their own.
// attrExpr is the text of an expression for use inside an attribute value: an escaped double quote in a
// string literal is written without its backslash there (the attribute's own quoting adds one).
func attrExpr(e *Expr) string {
	t := PrintExpr(e)
	var b strings.Builder
	for i := 0; i < len(t); i++ {
		if t[i] == '\\' && i+1 < len(t) {
			if t[i+1] != '"' {
				b.WriteByte(t[i])
			}
			b.WriteByte(t[i+1])
			i++
			continue
		}
		b.WriteByte(t[i])
	}
	return b.String()
}

func AttrQuote(s string) string {
	return `"` + strings.ReplaceAll(s, `"`, `\"`) + `"`
}

// attrWrap writes an attribute expression over two lines now and then (white space around an
// expression means nothing; inside its string literals every blank counts).
func attrWrap(t string) string {
	switch len(t) % 5 {
	case 1:
		return t + "\n  "
	case 3:
		return "\n    " + t
	}
	return t
}

func printDirectives(ds []Directive) string { return (&printer{}).directives(ds, false) }

// PrintDirectives is the canonical source text of a directive chain (the identity of a print command
// is its expression plus this).
func PrintDirectives(ds []Directive) string { return printDirectives(ds) }

func (p *printer) directives(ds []Directive, vary bool) string {
	var b strings.Builder
	for _, d := range ds {
		if vary {
			b.WriteString(p.bar() + d.Name)
		} else {
			b.WriteString("|" + d.Name)
		}
		for i, a := range d.Args {
			if i == 0 {
				b.WriteString(":")
			} else {
				b.WriteString(",")
			}
			b.WriteString(PrintExpr(a))
		}
	}
	return b.String()
}

var soyKeywords = map[string]bool{"param": true, "call": true, "if": true, "let": true, "for": true, "foreach": true, "msg": true, "print": true, "switch": true, "case": true, "default": true, "else": true, "elseif": true, "css": true, "log": true, "literal": true, "template": true, "namespace": true, "alias": true, "plural": true, "ifempty": true, "debugger": true, "sp": true, "nil": true, "lb": true, "rb": true, "and": true, "or": true, "not": true, "null": true, "true": true, "false": true}

type printer struct {
	b     strings.Builder
	file  *File
	ws    uint32
	inMsg bool
}

// sp is the white space between the parts of a tag: mostly one space, sometimes two, sometimes a line
// break with indentation (tags written over several lines are common in real templates). The choice
// is a fixed function of how many were written before, so a model always prints the same text.
func (p *printer) sp() string {
	p.ws++
	switch (p.ws * 2654435761) >> 28 {
	case 0:
		return "\n    "
	case 1:
		return "  "
	case 2:
		return "\r\n\t"
	}
	return " "
}

// attrs joins the attributes of a tag, now and then in the opposite order (the order of attributes
// carries no meaning).
func (p *printer) attrs(as ...string) string {
	var present []string
	for _, a := range as {
		if a != "" {
			present = append(present, a)
		}
	}
	p.ws++
	if (p.ws*2654435761)>>30 == 0 {
		for i, j := 0, len(present)-1; i < j; i, j = i+1, j-1 {
			present[i], present[j] = present[j], present[i]
		}
	}
	out := ""
	for _, a := range present {
		out += p.sp() + a
	}
	return out
}

// kindText is, now and then, the attribute kind="text" of a content block.
func (p *printer) kindText() string {
	p.ws++
	if (p.ws*2654435761)>>29 == 0 {
		return ` kind="text"`
	}
	return ""
}

// bar is the pipe before a print directive, now and then with a space in front.
func (p *printer) bar() string {
	p.ws++
	if (p.ws*2654435761)>>29 == 0 {
		return " |"
	}
	return "|"
}

func (p *printer) cmds(cs []Cmd) {
	for i := range cs {
		p.cmd(&cs[i])
		// now and then a comment between two commands neither of which is text (it contributes nothing)
		if i+1 < len(cs) && !p.inMsg && cs[i].K != "text" && cs[i+1].K != "text" && cs[i].K != "literal" && cs[i+1].K != "literal" {
			p.ws++
			switch (p.ws * 2654435761) >> 28 {
			case 5:
				p.b.WriteString("/* between commands */")
			case 6:
				p.b.WriteString(" // end of line\n")
			}
		}
	}
}

// ResolveCallName is the language's rule for the name written in a {call}: a leading dot means the
// file's own namespace; otherwise a first segment that is the last segment of one of the file's aliases
// stands for that alias; any other name is absolute.
func ResolveCallName(f *File, spelled string) string {
	if strings.HasPrefix(spelled, ".") {
		return f.Namespace + spelled
	}
	first, rest := spelled, ""
	if i := strings.Index(spelled, "."); i >= 0 {
		first, rest = spelled[:i], spelled[i:]
	}
	for _, a := range f.Aliases {
		if a[strings.LastIndex(a, ".")+1:] == first {
			return a + rest
		}
	}
	return spelled
}

// CallSpellings lists the ways the call's target can be written in the file, the one its Style asks for
// first; only spellings that resolve to the target are returned (an alias may capture a qualified name).
func CallSpellings(f *File, c *Call) []string {
	ns := c.Target[:strings.LastIndex(c.Target, ".")]
	short := c.Target[strings.LastIndex(c.Target, "."):]
	var relative, exact, prefix []string
	if ns == f.Namespace {
		relative = []string{short}
	}
	best := ""
	for _, a := range f.Aliases {
		if a == ns {
			exact = []string{ns[strings.LastIndex(ns, ".")+1:] + short}
		}
		if strings.HasPrefix(ns, a+".") && len(a) > len(best) {
			best = a
		}
	}
	if best != "" {
		prefix = []string{best[strings.LastIndex(best, ".")+1:] + ns[len(best):] + short}
	}
	full := []string{c.Target}
	var order [][]string
	switch c.Style {
	case 0, 3:
		order = [][]string{relative, full, exact, prefix}
	case 2:
		order = [][]string{exact, full, relative, prefix}
	case 4:
		order = [][]string{prefix, full, relative, exact}
	default:
		order = [][]string{full, relative, exact, prefix}
	}
	var out []string
	for _, group := range order {
		for _, sp := range group {
			if ResolveCallName(f, sp) == c.Target {
				out = append(out, sp)
			}
		}
	}
	return out
}

func (p *printer) callName(c *Call) (string, string) {
	name := c.Target
	if sp := CallSpellings(p.file, c); len(sp) > 0 {
		name = sp[0]
	}
	if c.Style == 3 {
		return "", " name=" + AttrQuote(name)
	}
	return " " + name, ""
}

func (p *printer) cmd(c *Cmd) {
	b := &p.b
	switch c.K {
	case "text":
		b.WriteString(ExpandRaw(c.Text))
	case "sp", "nil", "lb", "rb":
		b.WriteString("{" + c.K + "}")
	case "nl":
		b.WriteString(`{\n}`)
	case "cr":
		b.WriteString(`{\r}`)
	case "tab":
		b.WriteString(`{\t}`)
	case "literal":
		b.WriteString("{literal}" + c.Text + "{/literal}")
	case "print":
		kw := ""
		if c.Style == 1 {
			kw = "print "
		}
		if kw != "" {
			kw = "print" + p.sp()
		}
		b.WriteString(tag(kw + PrintExpr(c.Expr) + p.directives(c.Directives, true)))
	case "if":
		for i, br := range c.Branches {
			if i == 0 {
				b.WriteString(tag("if" + p.sp() + PrintExpr(br.Cond)))
			} else {
				b.WriteString(tag("elseif" + p.sp() + PrintExpr(br.Cond)))
			}
			p.cmds(br.Body)
		}
		if c.HasElse {
			b.WriteString("{else}")
			p.cmds(c.Else)
		}
		b.WriteString("{/if}")
	case "switch":
		b.WriteString(tag("switch" + p.sp() + PrintExpr(c.Expr)))
		b.WriteString(c.Gap)
		for _, br := range c.Branches {
			vs := make([]string, len(br.Values))
			for i, v := range br.Values {
				vs[i] = PrintExpr(v)
			}
			b.WriteString(tag("case" + p.sp() + strings.Join(vs, ","+p.sp())))
			p.cmds(br.Body)
		}
		if c.HasElse {
			b.WriteString("{default}")
			p.cmds(c.Else)
		}
		b.WriteString("{/switch}")
	case "for":
		kw := "for"
		if c.Style == 1 {
			kw = "foreach"
		}
		b.WriteString(tag(kw + p.sp() + "$" + c.Var + p.sp() + "in" + p.sp() + PrintExpr(c.Expr)))
		p.cmds(c.Body)
		if c.HasElse {
			b.WriteString("{ifempty}")
			p.cmds(c.Else)
		}
		b.WriteString("{/" + kw + "}")
	case "let":
		b.WriteString(tag("let" + p.sp() + "$" + c.Var + ":" + p.sp() + PrintExpr(c.Expr) + p.sp() + "/"))
	case "letc":
		// (the kind attribute is accepted and means nothing to this implementation; "text" is also what
		// the official compiler would treat the same way: the captured text is data when printed)
		b.WriteString("{let $" + c.Var + p.kindText() + "}")
		p.cmds(c.Body)
		b.WriteString("{/let}")
	case "call":
		name, nameAttr := p.callName(c.Call)
		dataAttr := ""
		if c.Call.DataAll {
			dataAttr = `data="all"`
		} else if c.Call.Data != nil {
			dataAttr = "data=" + AttrQuote(attrWrap(attrExpr(c.Call.Data)))
		}
		inner := "call" + name + p.attrs(strings.TrimSpace(nameAttr), dataAttr)
		if len(c.Call.Params) == 0 {
			b.WriteString(tag(inner + p.sp() + "/"))
			return
		}
		b.WriteString(tag(inner))
		b.WriteString(c.Gap)
		for _, pr := range c.Call.Params {
			if soyKeywords[pr.Key] && (pr.Key == "literal" || pr.Key == "css" || pr.Key == "template" || (len(pr.Key)+len(c.Call.Target))%2 == 0) {
				// a key spelled like a command name may be written in attribute syntax (after {literal, {css
				// and {template the scanner reads on in a mode of its own: those always are)
				pr.Style = 1
			}
			switch {
			case pr.IsBlock && pr.Style == 0:
				b.WriteString("{param " + pr.Key + p.kindText() + "}")
				p.cmds(pr.Content)
				b.WriteString("{/param}")
			case pr.IsBlock:
				b.WriteString("{param" + p.attrs("key="+AttrQuote(pr.Key), strings.TrimSpace(p.kindText())) + "}")
				p.cmds(pr.Content)
				b.WriteString("{/param}")
			case pr.Style == 0:
				b.WriteString(tag("param" + p.sp() + pr.Key + ":" + p.sp() + PrintExpr(pr.Value) + p.sp() + "/"))
			default:
				b.WriteString(tag("param" + p.attrs("key="+AttrQuote(pr.Key), "value="+AttrQuote(attrWrap(attrExpr(pr.Value)))) + p.sp() + "/"))
			}
			b.WriteString(c.Gap)
		}
		b.WriteString("{/call}")
	case "css":
		if c.Expr != nil {
			b.WriteString(tag("css " + PrintExpr(c.Expr) + ", " + c.Text))
		} else {
			b.WriteString("{css " + c.Text + "}")
		}
	case "log":
		b.WriteString("{log}")
		p.cmds(c.Body)
		b.WriteString("{/log}")
	case "debugger":
		b.WriteString("{debugger}")
	case "msg":
		meaning := ""
		if c.Meaning != "" {
			meaning = "meaning=" + AttrQuote(c.Meaning)
		}
		inner := "msg" + p.attrs(meaning, "desc="+AttrQuote(c.Desc))
		b.WriteString("{" + inner + "}")
		p.inMsg = true
		p.cmds(c.Body)
		p.inMsg = false
		b.WriteString("{/msg}")
	case "plural":
		b.WriteString(tag("plural" + p.sp() + PrintExpr(c.Expr)))
		b.WriteString(c.Gap)
		for _, br := range c.Branches {
			b.WriteString("{case " + strconv.Itoa(br.Int) + "}")
			p.cmds(br.Body)
		}
		b.WriteString("{default}")
		p.cmds(c.Else)
		b.WriteString("{/plural}")
	default:
		panic("print: unknown command " + c.K)
	}
}

// PrintFile renders one file of the model as Soy source.
func PrintFile(f *File) string {
	p := &printer{file: f}
	b := &p.b
	nl := "\n"
	if f.CRLF {
		nl = "\r\n"
	}
	b.WriteString("{namespace " + f.Namespace)
	if f.Autoescape != "" {
		b.WriteString(" autoescape=" + AttrQuote(f.Autoescape))
	}
	b.WriteString("}" + nl)
	for _, a := range f.Aliases {
		b.WriteString("{alias " + a + "}" + nl)
	}
	for ti := range f.Templates {
		t := &f.Templates[ti]
		b.WriteString(nl)
		if !t.Header || t.BothDecls {
			// (layouts of a doc comment: the usual one, a description line first, text behind the names,
			// no asterisks, everything closed right behind the last name)
			layout := (len(t.Name)*5 + len(t.Params)*3) % 11
			b.WriteString("/**" + nl)
			if layout == 3 || layout == 7 {
				b.WriteString(" * Renders " + t.Name + " (see the @param lines)." + nl + " *" + nl)
			}
			for pi, pd := range t.Params {
				// (a tab is white space too)
				sep := " "
				if (len(pd.Name)+len(t.Name))%5 == 2 {
					sep = "\t"
				}
				lead, tail := " * ", nl
				if layout == 5 {
					lead = ""
				}
				if layout == 7 || layout == 8 {
					tail = " The value of " + pd.Name + "." + nl
				}
				if layout == 9 && pi == len(t.Params)-1 {
					tail = "" // the comment closes right behind the name
				}
				if pd.Optional {
					b.WriteString(lead + "@param?" + sep + pd.Name + tail)
				} else {
					b.WriteString(lead + "@param" + sep + pd.Name + tail)
				}
			}
			// (the template tag may follow its soydoc on the same line)
			switch {
			case layout == 9 && len(t.Params) > 0:
				b.WriteString("*/" + nl)
			case (len(t.Name)*3+len(t.Params))%7 == 4:
				b.WriteString(" */ ")
			case layout == 6:
				b.WriteString(" **/" + nl)
			default:
				b.WriteString(" */" + nl)
			}
		}
		b.WriteString("{template ." + t.Name)
		ae, priv := "", ""
		if t.Autoescape != "" {
			ae = "autoescape=" + AttrQuote(t.Autoescape)
		}
		if t.Private {
			priv = `private="true"`
		} else if p.ws++; (p.ws*2654435761)>>29 == 0 {
			priv = `private="false"`
		}
		b.WriteString(p.attrs(ae, priv))
		b.WriteString("}")
		if t.Header || t.BothDecls {
			for _, pd := range t.Params {
				// (blanks between the template tag and a header param, and between header params)
				if (len(pd.Name)+len(t.Name)*2)%6 == 1 {
					b.WriteString(" ")
				} else if (len(pd.Name)+len(t.Name)*2)%6 == 2 {
					b.WriteString(nl + "  ")
				}
				// (the declared type is not interpreted; its spelling varies with the name)
				types := []string{"?", "any", "string", "list<string>", "map<string, int>", "[a: int, b: string]", "bool|null", "?  "}
				ty := types[(len(pd.Name)*7+int(pd.Name[0]))%len(types)]
				// (a default value is parsed and kept but never applied: the param stays as required as it
				// was declared)
				defs := []string{"", "", " = 'Hello'", "", "=3", "", " = null ", " = ['a', 'b']", "", " = -1", "= true"}
				def := defs[(len(pd.Name)*5+int(pd.Name[len(pd.Name)-1])+len(t.Name))%len(defs)]
				if pd.Optional {
					b.WriteString("{@param? " + pd.Name + ": " + ty + def + "}")
				} else {
					b.WriteString("{@param " + pd.Name + ":" + ty + def + " }")
				}
			}
		}
		p.cmds(t.Body)
		b.WriteString("{/template}" + nl)
	}
	return b.String()
}

// Sources prints every file of the program: name -> source, in file order.
func Sources(p *Program) (names []string, srcs []string) {
	for i := range p.Files {
		names = append(names, p.Files[i].Name)
		srcs = append(srcs, PrintFile(&p.Files[i]))
	}
	return
}
