// Package gen holds the program model, generators and pretty printer.
package gen
