package gen

import (
	. "verif/harness/ref"
)

// Chaos: ill-typed but (mostly) compilable programs for C06. Expressions are
// wrapped rather than replaced so variable references - which the compiler's
// data-reference rules need - survive.

var chaosLits = []*Expr{
	{Op: "null"}, {Op: "bool", B: true}, {Op: "int", I: 0}, {Op: "int", I: -1}, {Op: "int", I: 1 << 40}, {Op: "float", Text: "0.0"}, {Op: "float", Text: "1e300"},
	{Op: "str", S: ""}, {Op: "str", S: "abc"}, {Op: "list"}, {Op: "map"}, {Op: "list", Args: []*Expr{{Op: "null"}}},
	{Op: "map", Keys: []string{"a"}, Args: []*Expr{{Op: "list"}}},
}

func cp(e *Expr) *Expr { c := *e; return &c }

// ChaosExpr builds an expression with no regard for types or arities.
func (g *G) ChaosExpr(sc []string, depth int) *Expr {
	if depth <= 0 || g.Chance(30) {
		if len(sc) > 0 && g.Chance(40) {
			e := &Expr{Op: "ref", Name: sc[g.Intn(len(sc))]}
			for i, n := 0, g.Intn(3); i < n; i++ {
				switch g.Intn(3) {
				case 0:
					e.Access = append(e.Access, Access{Kind: "key", Key: g.Pick("a", "b", "x", "foo"), NullSafe: g.Chance(30)})
				case 1:
					e.Access = append(e.Access, Access{Kind: "index", Index: g.Intn(4), NullSafe: g.Chance(30)})
				case 2:
					e.Access = append(e.Access, Access{Kind: "expr", Expr: g.ChaosExpr(sc, depth-1), NullSafe: g.Chance(30)})
				}
			}
			return e
		}
		return cp(chaosLits[g.Intn(len(chaosLits))])
	}
	return g.chaosWrap(sc, g.ChaosExpr(sc, depth-1), depth-1)
}

var chaosFuncs = []string{"isNonnull", "length", "keys", "augmentMap", "round", "floor", "ceiling", "min", "max", "randomInt", "strContains", "range", "hasData", "index", "isFirst", "isLast", "noSuchFunction", "bidiGlobalDir"}

// chaosWrap puts e under a random operator or function, with random other operands.
func (g *G) chaosWrap(sc []string, e *Expr, depth int) *Expr {
	other := func() *Expr { return g.ChaosExpr(sc, depth) }
	switch g.Weighted(30, 8, 25, 8, 5, 5) {
	case 0:
		op := g.Pick("+", "-", "*", "/", "%", "<", ">", "<=", ">=", "==", "!=", "and", "or", "?:")
		if g.Chance(50) {
			return &Expr{Op: op, Args: []*Expr{e, other()}}
		}
		return &Expr{Op: op, Args: []*Expr{other(), e}}
	case 1:
		return &Expr{Op: g.Pick("neg", "not"), Args: []*Expr{e}}
	case 2:
		fn := chaosFuncs[g.Intn(len(chaosFuncs))]
		args := []*Expr{e}
		for i, n := 0, g.Intn(4); i < n; i++ {
			if g.Chance(50) {
				args = append(args, other())
			} else {
				args = append([]*Expr{other()}, args...)
			}
		}
		if fn == "range" {
			// keep finite data finite in memory: bounded literal limits, any step (also zero and negative)
			// (arguments of any numeric kind: small ints, floats, fractions, NaN - but bounded limits)
			small := func(ints int64, base int64) *Expr {
				switch g.Intn(6) {
				case 0:
					return &Expr{Op: "float", Text: []string{"0.5", "0.0", "-2.5", "1.5", "0.25", "2.0"}[g.Intn(6)]}
				case 1:
					return &Expr{Op: "/", Args: []*Expr{{Op: "int", I: int64(g.Intn(3))}, {Op: "int", I: int64(g.Intn(3))}}}
				}
				return &Expr{Op: "int", I: int64(g.Intn(int(ints))) + base}
			}
			if g.Chance(12) {
				// a short range at the edge of the integers (a handful of elements at most: finite data
				// however the end of the number line is met)
				const maxI = int64(1<<63 - 1)
				k := int64(1 + g.Intn(9))
				lo, hi := maxI-k, maxI-int64(g.Intn(int(k)))
				if g.Chance(30) {
					lo, hi = -maxI, -maxI+k
				}
				return &Expr{Op: "list", Args: []*Expr{e, {Op: "call", Name: "range", Args: []*Expr{{Op: "int", I: lo}, {Op: "int", I: hi}, {Op: "int", I: int64(1 + g.Intn(12))}}}}}
			}
			r := []*Expr{small(20, -5), small(2000, 0), small(7, -3)}[:1+g.Intn(3)]
			return &Expr{Op: "list", Args: []*Expr{e, {Op: "call", Name: "range", Args: r}}}
		}
		return &Expr{Op: "call", Name: fn, Args: args}
	case 3:
		return &Expr{Op: "tern", Args: []*Expr{other(), e, other()}}
	case 4:
		return &Expr{Op: "list", Args: []*Expr{e, other()}}
	case 5:
		return &Expr{Op: "map", Keys: []string{"k", "a"}, Args: []*Expr{e, other()}}
	}
	return e
}

var chaosDirectives = []Directive{
	{Name: "nope"}, {Name: "truncate"}, {Name: "truncate", Args: []*Expr{{Op: "str", S: "a"}}}, {Name: "truncate", Args: []*Expr{{Op: "int", I: -1}}},
	{Name: "truncate", Args: []*Expr{{Op: "int", I: 5}, {Op: "str", S: "x"}}}, {Name: "truncate", Args: []*Expr{{Op: "int", I: 1}, {Op: "bool"}, {Op: "int"}}},
	{Name: "insertWordBreaks"}, {Name: "insertWordBreaks", Args: []*Expr{{Op: "str", S: "a"}}}, {Name: "insertWordBreaks", Args: []*Expr{{Op: "int", I: 0}}},
	{Name: "insertWordBreaks", Args: []*Expr{{Op: "int", I: -3}}}, {Name: "insertWordBreaks", Args: []*Expr{{Op: "null"}}},
	{Name: "bidiSpanWrap"}, {Name: "bidiUnicodeWrap"}, {Name: "escapeHtml", Args: []*Expr{{Op: "int", I: 1}}}, {Name: "json"}, {Name: "escapeUri"}, {Name: "escapeJsString"},
	{Name: "changeNewlineToBr"}, {Name: "noAutoescape"}, {Name: "id", Args: []*Expr{{Op: "int"}}}, {Name: "truncate", Args: []*Expr{{Op: "int", I: 1 << 40}}},
	{Name: "truncate", Args: []*Expr{{Op: "float", Text: "2.5"}}},
}

func scopeNames(sc *Scope) []string {
	var out []string
	for _, v := range sc.Vars {
		out = append(out, v.Name)
	}
	if sc.HasIJ {
		out = append(out, "ij")
	}
	return out
}

// ChaosProgram mutates a well-typed program in place.
func (g *G) ChaosProgram(pc *ProgCase, rate int) (mutations int) {
	var names []string
	mut := func(e *Expr) *Expr {
		if e == nil || !g.Chance(rate) {
			return e
		}
		mutations++
		return g.chaosWrap(names, e, 1)
	}
	var curFQ string
	selfCall := func(cs []Cmd) bool {
		for i := range cs {
			if cs[i].K == "call" && cs[i].Call.Target == curFQ {
				return true
			}
		}
		return false
	}
	var walk func(cs []Cmd)
	walk = func(cs []Cmd) {
		for i := range cs {
			c := &cs[i]
			if c.K == "if" && len(c.Branches) == 1 && selfCall(c.Branches[0].Body) {
				continue // the guard of a data-bounded recursion stays intact (the property restricts recursion to bounded depth)
			}
			if c.K != "css" && c.K != "plural" {
				c.Expr = mut(c.Expr)
			}
			if c.K == "print" && g.Chance(rate) {
				mutations++
				c.Directives = append(c.Directives, chaosDirectives[g.Intn(len(chaosDirectives))])
			}
			for bi := range c.Branches {
				c.Branches[bi].Cond = mut(c.Branches[bi].Cond)
				for vi := range c.Branches[bi].Values {
					c.Branches[bi].Values[vi] = mut(c.Branches[bi].Values[vi])
				}
				walk(c.Branches[bi].Body)
			}
			walk(c.Body)
			walk(c.Else)
			if c.Call != nil {
				if c.Call.Data != nil && g.Chance(rate) {
					mutations++
					c.Call.Data = &Expr{Op: "tern", Args: []*Expr{g.ChaosExpr(names, 1), c.Call.Data, cp(chaosLits[g.Intn(len(chaosLits))])}}
				}
				for pi := range c.Call.Params {
					p := &c.Call.Params[pi]
					if p.IsBlock {
						walk(p.Content)
					} else if p.Key != "depthN" {
						p.Value = mut(p.Value)
						if p.Value != nil && p.Style == 1 {
							p.Style = 0
						}
					}
				}
			}
		}
	}
	for fi := range pc.Prog.Files {
		for ti := range pc.Prog.Files[fi].Templates {
			t := &pc.Prog.Files[fi].Templates[ti]
			curFQ = pc.Prog.Files[fi].Namespace + "." + t.Name
			names = nil
			for _, p := range t.Params {
				names = append(names, p.Name)
			}
			if pc.HasIJ || g.Chance(20) {
				names = append(names, "ij")
			}
			walk(t.Body)
		}
	}
	return
}

// AnyValue draws a value of arbitrary JSON shape.
func (g *G) AnyValue(depth int) Value {
	k := g.Intn(8)
	if depth <= 0 && k >= 6 {
		k = g.Intn(6)
	}
	switch k {
	case 0:
		return N()
	case 1:
		return B(g.Chance(50))
	case 2:
		return I([]int64{0, 1, -1, 7, 1 << 40, -(1 << 53), 9223372036854775807}[g.Intn(7)])
	case 3:
		return F([]float64{0, 0.5, -2.25, 1e300, 1e-300}[g.Intn(5)])
	case 4, 5:
		return S(g.StringValue())
	case 6:
		n := g.Intn(4)
		items := make([]Value, n)
		for i := range items {
			items[i] = g.AnyValue(depth - 1)
		}
		return L(items...)
	}
	m := map[string]Value{}
	for i, n := 0, g.Intn(4); i < n; i++ {
		m[g.Pick("a", "b", "x", "foo", "name", "items", "")] = g.AnyValue(depth - 1)
	}
	return M(m)
}

// SyntaxExpr draws an arbitrary (not necessarily well-typed) expression tree
// over every node kind and literal spelling, for the print/parse round trip.
func (g *G) SyntaxExpr(depth int) *Expr {
	e := g.syntax1(depth)
	if g.Chance(10) {
		e.Paren = true
	}
	if IsBinary(e.Op) && g.Chance(30) {
		e.Tight = true
	}
	return e
}

var syntaxStrings = []string{"", "a", "it's", "back\\slash", "new\nline", "tab\t", "\r", "quote\"d", "é", "日本", "𝄞", "{}", "a}b", "\x01", " ", "'", "\\'", "x y", "</script>", "\b\f", "l'été", "日本\n", "é\\", "𝄞'\t", "ß\"ü"}
var syntaxFloats = []string{"0.0", "1.0", "2.5", "100.0", "1e3", "1.5e-3", "6.02e23", "0.001", "123456789.125", "1e21", "1e-7", "5e0"}
var syntaxIdents = []string{"x", "foo", "a_b", "camelCase", "X9", "_u"}

func (g *G) syntax1(depth int) *Expr {
	if depth <= 0 || g.Chance(25) {
		switch g.Intn(9) {
		case 0:
			return &Expr{Op: "null"}
		case 1:
			return &Expr{Op: "bool", B: g.Chance(50)}
		case 2:
			e := &Expr{Op: "int", I: []int64{0, 1, 7, 42, 255, 1 << 31, 1<<53 - 1, 9223372036854775807}[g.Intn(8)]}
			if g.Chance(20) {
				e.Hex = true
			} else if g.Chance(25) {
				e.I = -e.I
			}
			return e
		case 3:
			t := syntaxFloats[g.Intn(len(syntaxFloats))]
			if g.Chance(25) {
				t = "-" + t
			}
			return &Expr{Op: "float", Text: t}
		case 4:
			return &Expr{Op: "str", S: syntaxStrings[g.Intn(len(syntaxStrings))], Esc: g.Intn(2)}
		case 5:
			return &Expr{Op: "global", Name: g.Pick("GLOBAL", "app.NAME", "a.b.c", "flag")}
		default:
			e := &Expr{Op: "ref", Name: g.Pick("x", "foo", "ij", "a_b", "item")}
			for i, n := 0, g.Intn(4); i < n; i++ {
				switch g.Intn(3) {
				case 0:
					e.Access = append(e.Access, Access{Kind: "key", Key: syntaxIdents[g.Intn(len(syntaxIdents))], NullSafe: g.Chance(30)})
				case 1:
					e.Access = append(e.Access, Access{Kind: "index", Index: g.Intn(12), NullSafe: g.Chance(30)})
				case 2:
					e.Access = append(e.Access, Access{Kind: "expr", Expr: g.SyntaxExpr(depth - 1), NullSafe: g.Chance(30)})
				}
			}
			return e
		}
	}
	d := depth - 1
	switch g.Weighted(45, 10, 8, 10, 8, 8) {
	case 0:
		op := g.Pick("*", "/", "%", "+", "-", "<", ">", "<=", ">=", "==", "!=", "and", "or", "?:")
		a, b := g.SyntaxExpr(d), g.SyntaxExpr(d)
		if op == "?:" {
			for _, c := range []*Expr{a, b} {
				if c.Op == "?:" || c.Op == "tern" {
					c.Paren = true // the mutual nesting of ?: and ? : is always written with parentheses
				}
			}
		}
		return &Expr{Op: op, Args: []*Expr{a, b}}
	case 1:
		return &Expr{Op: g.Pick("neg", "not"), Args: []*Expr{g.SyntaxExpr(d)}}
	case 2:
		c := g.SyntaxExpr(d)
		if c.Op == "?:" || c.Op == "tern" {
			c.Paren = true
		}
		return &Expr{Op: "tern", Args: []*Expr{c, g.SyntaxExpr(d), g.SyntaxExpr(d)}}
	case 3:
		e := &Expr{Op: "call", Name: g.Pick("length", "round", "max", "isNonnull", "myFunc", "index", "range", "hasData")}
		for i, n := 0, g.Intn(4); i < n; i++ {
			e.Args = append(e.Args, g.SyntaxExpr(d))
		}
		return e
	case 4:
		e := &Expr{Op: "list"}
		for i, n := 0, g.Intn(4); i < n; i++ {
			e.Args = append(e.Args, g.SyntaxExpr(d))
		}
		return e
	}
	e := &Expr{Op: "map"}
	seen := map[string]bool{}
	for i, n := 0, g.Intn(4); i < n; i++ {
		k := g.Pick("a", "b", "key", "it's", "q\"uote", "back\\slash", "", "new\nline", "é", "a b", "A", "\\w+", "'q'", "\nfirst", "\\", "\ttab", "\"dq", "\r", "\x01x")
		if g.Chance(15) {
			k = syntaxStrings[g.Intn(len(syntaxStrings))]
		}
		if seen[k] {
			continue
		}
		seen[k] = true
		e.Keys = append(e.Keys, k)
		e.Args = append(e.Args, g.SyntaxExpr(d))
	}
	return e
}
