package gen

import (
	"fmt"
	"strings"

	. "verif/harness/ref"
)

// ProgCase is a complete generated case: a bundle, the template to render and its inputs.
type ProgCase struct {
	Prog  Program          `json:"prog"`
	Entry string           `json:"entry"`
	Data  map[string]Value `json:"data"`
	IJ    map[string]Value `json:"ij,omitempty"`
	HasIJ bool             `json:"hasij,omitempty"`
}

type PSig struct {
	Name     string
	T        *Ty
	Optional bool
	Small    bool // recursion counter: callers pass a small literal
}

type TmplSig struct {
	FQ     string
	File   int
	Params []PSig
}

// ProgOpts sizes the program generator.
type ProgOpts struct {
	MaxTemplates int
	MaxDepth     int // block nesting depth
	MaxCmds      int // commands per block
	ExprDepth    int
	PosWeight    int  // weight of "expression in a syntactic position" patterns (C01)
	Valueless    bool // allow one deliberately valueless print
	NoMsg        bool
	NoLog        bool
	ScopeWeight  int // weight of scoping stress patterns (C02)
	CallWeight   int // extra weight for calls
	MinTemplates int
}

type progGen struct {
	*G
	o         ProgOpts
	prog      *Program
	sigs      []TmplSig
	paramTys  map[string]*Ty // a parameter name has one type program-wide (keeps data="all" well-typed)
	nvar      int
	ij        *Ty
	hasIJ     bool
	cur       *TmplSig
	curFile   int
	shadowed  map[string]bool // params shadowed somewhere in the current template
	valueless bool            // a valueless print was already placed
}

var (
	paramNames = []string{"p", "q", "user", "count", "title", "rows", "opts", "flag", "val", "item", "name2", "cfg"}
	letNames   = []string{"v", "w", "tmp", "acc", "label", "i", "j", "cur", "total"}
	tmplNames  = []string{"main", "row", "helper", "item_view", "pageTitle", "t5", "inner", "box"}
	nsNames    = []string{"app", "app.views.main", "lib.util"}
	textPieces = []string{"hello", " ", "a b", "<div>", "</div>", "x", " lead", "trail ", "Hello, world!", "<p>", "1 < 2", "&amp;", "a\nb", "line\n  next", "\n", "  \n  ", "tab\there", "a  b", "é", "\"quoted\"", "it's", "a/b", "http://x.y/z", "<br/>\n<hr>", ">\n x", "end.\n"}
)

// GenProgram draws a whole case.
func GenProgram(g *G, o ProgOpts) ProgCase {
	pg := &progGen{G: g, o: o, prog: &Program{}, paramTys: map[string]*Ty{}}
	// globals
	for i, n := 0, g.Intn(3); i < n; i++ {
		t := g.ScalarType()
		name := []string{"GLOBAL_A", "app.FLAG", "MAX_ITEMS", "site.name"}[i]
		v := g.Value(t)
		g.Globals = append(g.Globals, Global{name, t, v})
		if pg.prog.Globals == nil {
			pg.prog.Globals = map[string]Value{}
		}
		pg.prog.Globals[name] = v
	}
	// injected data
	var ij map[string]Value
	if g.Chance(40) {
		pg.hasIJ = true
		pg.ij = &Ty{K: Map, Fields: []Field{{"locale", TString}, {"uid", TInt}}}
		ij = g.Value(pg.ij).M
	}
	// files
	nfiles := 1 + g.Intn(3)
	for i := 0; i < nfiles; i++ {
		ns := nsNames[g.Intn(len(nsNames))]
		f := File{Name: fmt.Sprintf("f%d.soy", i), Namespace: ns}
		f.Autoescape = []string{"", "", "", "", "true", "false", "contextual", "deprecated-contextual"}[g.Intn(8)]
		pg.prog.Files = append(pg.prog.Files, f)
	}
	ntmpl := 1 + g.Intn(o.MaxTemplates)
	if ntmpl < o.MinTemplates {
		ntmpl = o.MinTemplates
	}
	for i := 0; i < ntmpl; i++ {
		pg.template(i, i == ntmpl-1)
	}
	entry := pg.sigs[len(pg.sigs)-1]
	data := map[string]Value{}
	for _, p := range entry.Params {
		if p.Optional {
			switch g.Intn(3) {
			case 0:
				continue
			case 1:
				data[p.Name] = N()
				continue
			}
		}
		if p.Small {
			data[p.Name] = I(int64(g.Intn(4)))
			continue
		}
		base := *p.T
		base.Opt = false
		data[p.Name] = g.Value(&base)
	}
	// drop files that ended up without templates
	var files []File
	for _, f := range pg.prog.Files {
		if len(f.Templates) > 0 {
			files = append(files, f)
		}
	}
	pg.prog.Files = files
	return ProgCase{Prog: *pg.prog, Entry: entry.FQ, Data: data, IJ: ij, HasIJ: pg.hasIJ}
}

func (pg *progGen) fresh(pool []string) string {
	pg.nvar++
	return fmt.Sprintf("%s%d", pool[pg.Intn(len(pool))], pg.nvar)
}

func (pg *progGen) template(idx int, last bool) {
	g := pg.G
	fi := g.Intn(len(pg.prog.Files))
	f := &pg.prog.Files[fi]
	name := fmt.Sprintf("%s%d", tmplNames[g.Intn(len(tmplNames))], idx)
	sig := TmplSig{FQ: f.Namespace + "." + name, File: fi}
	t := Template{Name: name, Header: g.Chance(30), Private: g.Chance(10)}
	t.Autoescape = []string{"", "", "", "", "", "true", "false", "contextual"}[g.Intn(8)]

	// params: some inherited from an earlier template (enables data="all"), some new
	seen := map[string]bool{}
	if len(pg.sigs) > 0 && g.Chance(40) {
		from := pg.sigs[g.Intn(len(pg.sigs))]
		for _, p := range from.Params {
			if !p.Small && g.Chance(70) {
				sig.Params = append(sig.Params, PSig{p.Name, p.T, p.Optional && g.Chance(50), false})
				seen[p.Name] = true
			}
		}
	}
	for i, n := 0, g.Intn(4); i < n; i++ {
		name := paramNames[g.Intn(len(paramNames))]
		if seen[name] {
			continue
		}
		seen[name] = true
		ty, ok := pg.paramTys[name]
		if !ok {
			ty = g.Type(2)
			pg.paramTys[name] = ty
		}
		opt := g.Chance(25)
		sig.Params = append(sig.Params, PSig{Name: name, T: ty, Optional: opt})
	}
	recursive := !last && g.Chance(12)
	if recursive {
		sig.Params = append(sig.Params, PSig{Name: "depthN", T: TInt, Small: true})
	}
	for _, p := range sig.Params {
		t.Params = append(t.Params, ParamDecl{p.Name, p.Optional})
	}

	// scope
	sc := &Scope{HasIJ: pg.hasIJ, IJ: pg.ij}
	flags := make([]*bool, len(sig.Params))
	for i, p := range sig.Params {
		ty := *p.T
		ty.Opt = p.Optional
		flags[i] = new(bool)
		sc.Vars = append(sc.Vars, Var{Name: p.Name, T: &ty, used: flags[i]})
	}
	pg.cur = &sig
	pg.curFile = fi
	pg.shadowed = map[string]bool{}
	body := pg.body(sc, pg.o.MaxDepth, true)
	if recursive {
		n := &Expr{Op: "ref", Name: "depthN"}
		rec := Cmd{K: "if", Branches: []Branch{{Cond: bin(">", n, &Expr{Op: "int", I: 0}), Body: []Cmd{
			{K: "print", Expr: n},
			{K: "call", Call: pg.recCall(sc, &sig)},
		}}}}
		body = append(body, rec)
		for i, p := range sig.Params {
			if p.Name == "depthN" {
				*flags[i] = true
			}
		}
	}
	// every declared param must be used (compiler rule); shadowed ones get a top-level use too
	for i, p := range sig.Params {
		if !*flags[i] || pg.shadowed[p.Name] {
			body = append(body, pg.useCmd(&sc.Vars[i]))
		}
	}
	t.Body = body
	f.Templates = append(f.Templates, t)
	pg.sigs = append(pg.sigs, sig)
}

func (pg *progGen) recCall(sc *Scope, sig *TmplSig) *Call {
	c := &Call{Target: sig.FQ}
	for _, p := range sig.Params {
		switch {
		case p.Name == "depthN":
			c.Params = append(c.Params, Param{Key: p.Name, Value: bin("-", &Expr{Op: "ref", Name: "depthN"}, &Expr{Op: "int", I: 1})})
		case !p.Optional:
			c.Params = append(c.Params, Param{Key: p.Name, Value: &Expr{Op: "ref", Name: p.Name}})
		}
	}
	return c
}

// useCmd is a command that references v without needing its value to be printable.
func (pg *progGen) useCmd(v *Var) Cmd {
	r := &Expr{Op: "ref", Name: v.Name}
	if v.used != nil {
		*v.used = true
	}
	switch {
	case v.T.Opt:
		return Cmd{K: "print", Expr: call("isNonnull", r)}
	case v.T.K == List:
		return Cmd{K: "print", Expr: call("length", r)}
	case v.T.K == Map:
		return Cmd{K: "if", Branches: []Branch{{Cond: r, Body: []Cmd{{K: "text", Text: "m"}}}}}
	}
	return Cmd{K: "print", Expr: r}
}

func (pg *progGen) printable(depth int) *Ty {
	if pg.P.Common || pg.Chance(85) {
		return pg.ScalarType()
	}
	return pg.Type(depth)
}

func (pg *progGen) directives() []Directive {
	if !pg.P.Directives || pg.Chance(60) {
		return nil
	}
	var ds []Directive
	for i, n := 0, 1+pg.Intn(2); i < n; i++ {
		switch pg.Weighted(20, 10, 20, 20, 15, 10) {
		case 0:
			ds = append(ds, Directive{Name: "noAutoescape"})
		case 1:
			ds = append(ds, Directive{Name: "id"})
		case 2:
			ds = append(ds, Directive{Name: "escapeHtml"})
		case 3:
			d := Directive{Name: "truncate", Args: []*Expr{{Op: "int", I: int64(pg.Intn(14))}}}
			if pg.Chance(40) {
				d.Args = append(d.Args, &Expr{Op: "bool", B: pg.Chance(50)})
			}
			ds = append(ds, d)
		case 4:
			ds = append(ds, Directive{Name: "changeNewlineToBr"})
		case 5:
			ds = append(ds, Directive{Name: "insertWordBreaks", Args: []*Expr{{Op: "int", I: int64(40 + pg.Intn(20))}}})
		}
	}
	return ds
}

func (pg *progGen) text() Cmd {
	s := textPieces[pg.Intn(len(textPieces))]
	if pg.Chance(20) {
		s += textPieces[pg.Intn(len(textPieces))]
	}
	return Cmd{K: "text", Text: s}
}

// newVarName picks a name for a let or loop variable: usually fresh, sometimes
// shadowing a name of an enclosing block (never one introduced in this block).
func (pg *progGen) newVarName(sc *Scope, blockStart int, allowShadow bool) string {
	// (only params are shadowed here: they get a use at the end of the template;
	// shadowing of outer lets is built by scopePattern, which adds the later use)
	if np := len(pg.cur.Params); allowShadow && np > 0 && blockStart >= np && pg.Chance(40) {
		v := sc.Vars[pg.Intn(np)]
		if v.Name != "depthN" {
			pg.shadowed[v.Name] = true
			return v.Name
		}
	}
	return pg.fresh(letNames)
}

// body generates one block. Lets introduced here that stay unused get a use appended.
func (pg *progGen) body(sc *Scope, depth int, top bool) []Cmd {
	g := pg.G
	var cmds []Cmd
	blockStart := len(sc.Vars)
	cur := sc
	n := 1 + g.Intn(pg.o.MaxCmds)
	var lets []*Var
	for i := 0; i < n; i++ {
		kind := g.Weighted(18, 25, 10, 5, 8, 8, 4, 10+pg.o.CallWeight, 3, 2, 2, 1, 1, 3, pg.o.PosWeight, 2, pg.o.ScopeWeight)
		if depth <= 0 && (kind == 2 || kind == 3 || kind == 4 || kind == 6 || kind == 11 || kind == 13) {
			kind = 1
		}
		switch kind {
		case 0:
			cmds = append(cmds, pg.text())
		case 1:
			c := Cmd{K: "print", Expr: g.Expr(cur, pg.printable(1), pg.o.ExprDepth), Directives: pg.directives()}
			if g.Chance(20) {
				c.Style = 1
			}
			cmds = append(cmds, c)
		case 2:
			c := Cmd{K: "if"}
			for j, nb := 0, 1+g.Intn(2); j < nb; j++ {
				c.Branches = append(c.Branches, Branch{Cond: g.cond(cur, pg.o.ExprDepth), Body: pg.body(cur, depth-1, false)})
			}
			if g.Chance(50) {
				c.HasElse = true
				c.Else = pg.body(cur, depth-1, false)
			}
			cmds = append(cmds, c)
		case 3:
			cmds = append(cmds, pg.switchCmd(cur, depth))
		case 4:
			cmds = append(cmds, pg.forCmd(cur, depth, blockStart, !top && i == 0))
		case 5:
			name := pg.newVarName(cur, blockStart, !top && i == 0)
			t := g.Type(1)
			used := new(bool)
			c := Cmd{K: "let", Var: name, Expr: g.Expr(cur, t, pg.o.ExprDepth)}
			cur = cur.with(Var{Name: name, T: t, used: used})
			lets = append(lets, &cur.Vars[len(cur.Vars)-1])
			cmds = append(cmds, c)
		case 6:
			name := pg.newVarName(cur, blockStart, !top && i == 0)
			used := new(bool)
			c := Cmd{K: "letc", Var: name, Body: pg.body(cur, depth-1, false)}
			cur = cur.with(Var{Name: name, T: TString, used: used})
			lets = append(lets, &cur.Vars[len(cur.Vars)-1])
			cmds = append(cmds, c)
		case 7:
			if c, ok := pg.callCmd(cur, depth); ok {
				cmds = append(cmds, c)
			} else {
				cmds = append(cmds, pg.text())
			}
		case 8:
			cmds = append(cmds, Cmd{K: g.Pick("sp", "nil", "lb", "rb", "nl", "cr", "tab")})
		case 9:
			cmds = append(cmds, Cmd{K: "literal", Text: g.Pick("{x}", "a  b", " {$notvar} ", "\n keep \n", "// not a comment", "<b>{{}}</b>", "}")})
		case 10:
			c := Cmd{K: "css", Text: g.Pick("base", "a-b", "x_y", "col2")}
			if g.Chance(50) {
				restore := snapshotUsed(cur)
				c.Expr = g.Expr(cur, []*Ty{TString, TInt}[g.Intn(2)], 1)
				if strings.ContainsAny(PrintExpr(c.Expr), ",{}") {
					c.Expr = nil // the css command splits on the last comma
					restore()
				}
			}
			cmds = append(cmds, c)
		case 11:
			if pg.o.NoLog {
				cmds = append(cmds, pg.text())
			} else {
				cmds = append(cmds, Cmd{K: "log", Body: pg.body(cur, 0, false)})
			}
		case 12:
			cmds = append(cmds, Cmd{K: "debugger"})
		case 13:
			if pg.o.NoMsg {
				cmds = append(cmds, pg.text())
			} else {
				cmds = append(cmds, pg.msgCmd(cur))
			}
		case 14:
			cmds = append(cmds, pg.position(cur, depth)...)
		case 16:
			cmds = append(cmds, pg.scopePattern(cur, depth)...)
		case 15:
			if pg.o.Valueless && !pg.valueless && g.Chance(50) {
				pg.valueless = true
				cmds = append(cmds, pg.valuelessPrint(cur)...)
			} else {
				cmds = append(cmds, pg.text())
			}
		}
	}
	for _, v := range lets {
		if !*v.used {
			cmds = append(cmds, pg.useCmd(v))
		}
	}
	return cmds
}

func (pg *progGen) switchCmd(sc *Scope, depth int) Cmd {
	g := pg.G
	t := []*Ty{TInt, TString, TBool}[g.Intn(3)]
	var subject *Expr
	switch t {
	case TInt:
		subject = bin("%", g.Expr(sc, TInt, 1), &Expr{Op: "int", I: 4})
	default:
		subject = g.Expr(sc, t, pg.o.ExprDepth)
	}
	c := Cmd{K: "switch", Expr: subject}
	for j, nb := 0, 1+g.Intn(3); j < nb; j++ {
		br := Branch{Body: pg.body(sc, depth-1, false)}
		for k, nv := 0, 1+g.Intn(2); k < nv; k++ {
			switch t {
			case TInt:
				br.Values = append(br.Values, &Expr{Op: "int", I: int64(g.Intn(4))})
			case TBool:
				br.Values = append(br.Values, &Expr{Op: "bool", B: g.Chance(50)})
			default:
				if g.Chance(50) {
					br.Values = append(br.Values, g.Expr(sc, TString, 1))
				} else {
					br.Values = append(br.Values, &Expr{Op: "str", S: g.StringValue()})
				}
			}
		}
		c.Branches = append(c.Branches, br)
	}
	if g.Chance(60) {
		c.HasElse = true
		c.Else = pg.body(sc, depth-1, false)
	}
	return c
}

func (pg *progGen) forCmd(sc *Scope, depth, blockStart int, allowShadow bool) Cmd {
	g := pg.G
	c := Cmd{K: "for", Style: g.Intn(2)}
	var elem *Ty
	if g.Chance(35) {
		// range loop
		elem = TInt
		args := []*Expr{{Op: "int", I: int64(g.Intn(4))}}
		switch g.Intn(3) {
		case 1:
			args = []*Expr{{Op: "int", I: int64(g.Intn(3))}, {Op: "int", I: int64(g.Intn(6))}}
		case 2:
			args = []*Expr{{Op: "int", I: int64(g.Intn(3))}, {Op: "int", I: int64(g.Intn(8))}, {Op: "int", I: int64(1 + g.Intn(3))}}
		}
		if g.Chance(30) {
			args[len(args)-1] = g.deco(bin("+", args[len(args)-1], &Expr{Op: "int", I: 0}))
		}
		c.Expr = call("range", args...)
		c.Style = 0
	} else {
		elem = g.Type(1)
		c.Expr = g.Expr(sc, &Ty{K: List, Elem: elem, MinLen: 0}, 1)
	}
	c.Var = pg.newVarName(sc, blockStart, allowShadow)
	inner := sc.with(Var{Name: c.Var, T: elem, Loop: true, used: new(bool)})
	c.Body = pg.body(inner, depth-1, false)
	if g.Chance(40) {
		c.HasElse = true
		c.Else = pg.body(sc, depth-1, false)
	}
	return c
}

func (pg *progGen) paramArg(sc *Scope, p PSig, depth int) Param {
	g := pg.G
	pr := Param{Key: p.Name, Style: g.Intn(2)}
	base := *p.T
	base.Opt = false
	switch {
	case p.Small:
		pr.Value = &Expr{Op: "int", I: int64(g.Intn(4))}
	case base.K == String && g.Chance(35):
		pr.IsBlock = true
		pr.Content = pg.body(sc, depth-1, false)
	default:
		pr.Value = g.Expr(sc, &base, pg.o.ExprDepth)
	}
	if pr.Value != nil && pr.Style == 1 && strings.ContainsAny(PrintExpr(pr.Value), "\"\\") {
		pr.Style = 0 // attribute syntax is used only where no quoting question arises
	}
	return pr
}

func (pg *progGen) callCmd(sc *Scope, depth int) (Cmd, bool) {
	g := pg.G
	if len(pg.sigs) == 0 {
		return Cmd{}, false
	}
	callee := pg.sigs[g.Intn(len(pg.sigs))]
	c := &Call{Target: callee.FQ, Style: g.Intn(4)}
	calleeNS := callee.FQ[:strings.LastIndex(callee.FQ, ".")]
	f := &pg.prog.Files[pg.curFile]
	if c.Style == 2 {
		if calleeNS == f.Namespace || !strings.Contains(calleeNS, ".") {
			c.Style = 1
		} else {
			found := false
			for _, a := range f.Aliases {
				if a == calleeNS {
					found = true
				}
			}
			if !found {
				f.Aliases = append(f.Aliases, calleeNS)
			}
		}
	}
	passed := map[string]bool{}
	mode := g.Weighted(55, 25, 20)
	switch mode {
	case 1: // data="all": every required callee param the caller cannot forward is passed explicitly
		c.DataAll = true
		for _, p := range callee.Params {
			for i := range pg.cur.Params {
				cp := pg.cur.Params[i]
				if cp.Name == p.Name && !p.Small && (!cp.Optional || p.Optional) {
					passed[p.Name] = true
					if v := sc.lookup(p.Name); v != nil && v.used != nil {
						// the forwarded value is the template's own param
					}
					for vi := range sc.Vars {
						if sc.Vars[vi].Name == p.Name && vi < len(pg.cur.Params) && sc.Vars[vi].used != nil {
							*sc.Vars[vi].used = true
						}
					}
				}
				// a caller param with the callee's name but optional where the callee requires it is overridden below
			}
		}
	case 2: // data="$map"
		rec := &Ty{K: Map}
		for _, p := range callee.Params {
			if !p.Optional && !p.Small && g.Chance(70) {
				base := *p.T
				rec.Fields = append(rec.Fields, Field{p.Name, &base})
				passed[p.Name] = true
			}
		}
		restore := snapshotUsed(sc)
		c.Data = g.Expr(sc, rec, 1)
		if strings.ContainsAny(PrintExpr(c.Data), "\"\\") {
			c.Data = nil
			passed = map[string]bool{}
			restore()
		}
	}
	for _, p := range callee.Params {
		need := !p.Optional && !passed[p.Name]
		if c.DataAll && !need {
			// with data="all" an explicitly optional callee param may still be shadowed by a same-named caller param of the same type: fine
		}
		if need || g.Chance(25) {
			c.Params = append(c.Params, pg.paramArg(sc, p, depth))
		}
	}
	return Cmd{K: "call", Call: c}, true
}

func (pg *progGen) msgCmd(sc *Scope) Cmd {
	g := pg.G
	c := Cmd{K: "msg", Desc: g.Pick("a message", "", "greeting shown on top", "desc with \"quotes\""), Meaning: g.Pick("", "", "noun", "verb")}
	if g.Chance(25) {
		pl := Cmd{K: "plural", Expr: g.Expr(sc, TInt, 1)}
		seen := map[int]bool{}
		for i, n := 0, g.Intn(3); i < n; i++ {
			k := []int{0, 1, 2, 5}[g.Intn(4)]
			if seen[k] {
				continue
			}
			seen[k] = true
			pl.Branches = append(pl.Branches, Branch{Int: k, Body: pg.msgParts(sc)})
		}
		pl.Else = pg.msgParts(sc)
		c.Body = []Cmd{pl}
		return c
	}
	c.Body = pg.msgParts(sc)
	return c
}

func (pg *progGen) msgParts(sc *Scope) []Cmd {
	g := pg.G
	var out []Cmd
	for i, n := 0, 1+g.Intn(4); i < n; i++ {
		switch g.Weighted(50, 35, 15) {
		case 0:
			out = append(out, Cmd{K: "text", Text: g.Pick("Hello ", "you have ", " items", "<b>", "</b>", "<a href=\"x\">", "</a>", " and ", "!", "<br/>", "Click here")})
		case 1:
			out = append(out, Cmd{K: "print", Expr: g.Expr(sc, g.ScalarType(), 1)})
		case 2:
			out = append(out, Cmd{K: "sp"})
		}
	}
	return out
}

// position wraps a generated expression in one of the syntactic positions that
// take an expression; the surrounding commands make its value observable.
func (pg *progGen) position(sc *Scope, depth int) []Cmd {
	g := pg.G
	d := pg.o.ExprDepth
	v := pg.fresh(letNames)
	switch g.Intn(16) {
	case 0: // if / elseif condition
		return []Cmd{{K: "if", Branches: []Branch{{Cond: &Expr{Op: "bool", B: false}, Body: []Cmd{{K: "text", Text: "no"}}}, {Cond: g.cond(sc, d), Body: []Cmd{{K: "text", Text: "T"}}}}, HasElse: true, Else: []Cmd{{K: "text", Text: "F"}}}}
	case 1: // let value
		t := pg.printable(1)
		return []Cmd{{K: "let", Var: v, Expr: g.Expr(sc, t, d)}, {K: "print", Expr: &Expr{Op: "ref", Name: v}}}
	case 2: // list element
		t := g.ScalarType()
		return []Cmd{{K: "let", Var: v, Expr: &Expr{Op: "list", Args: []*Expr{g.Expr(sc, g.ScalarType(), 1), g.Expr(sc, t, d)}}},
			{K: "print", Expr: &Expr{Op: "ref", Name: v, Access: []Access{g.indexAccess(1, false)}}}}
	case 3: // map value
		t := g.ScalarType()
		return []Cmd{{K: "let", Var: v, Expr: &Expr{Op: "map", Keys: []string{"k", "other"}, Args: []*Expr{g.Expr(sc, t, d), g.Expr(sc, g.ScalarType(), 0)}}},
			{K: "print", Expr: &Expr{Op: "ref", Name: v, Access: []Access{g.keyAccess("k", false)}}}}
	case 4: // index expression into a list
		idx := g.Intn(3)
		items := &Expr{Op: "list", Args: []*Expr{{Op: "str", S: "zero"}, {Op: "str", S: "one"}, {Op: "str", S: "two"}}}
		ie := g.deco(bin("+", &Expr{Op: "int", I: int64(idx)}, bin("*", g.Expr(sc, TInt, 1), &Expr{Op: "int", I: 0})))
		return []Cmd{{K: "let", Var: v, Expr: items}, {K: "print", Expr: &Expr{Op: "ref", Name: v, Access: []Access{{Kind: "expr", NullSafe: g.Chance(30), Expr: ie}}}}}
	case 5: // string key expression into a map
		m := &Expr{Op: "map", Keys: []string{"ab", "c"}, Args: []*Expr{{Op: "int", I: 1}, {Op: "int", I: 2}}}
		ke := g.deco(bin("+", &Expr{Op: "str", S: "a"}, &Expr{Op: "str", S: "b"}))
		return []Cmd{{K: "let", Var: v, Expr: m}, {K: "print", Expr: &Expr{Op: "ref", Name: v, Access: []Access{{Kind: "expr", Expr: ke}}}}}
	case 6: // range arguments
		return []Cmd{{K: "for", Var: v, Expr: call("range", g.deco(bin("%", g.Expr(sc, TInt, 1), &Expr{Op: "int", I: 3})), &Expr{Op: "int", I: 4}),
			Body: []Cmd{{K: "print", Expr: &Expr{Op: "ref", Name: v}}, {K: "text", Text: ","}}, HasElse: true, Else: []Cmd{{K: "text", Text: "none"}}}}
	case 7: // directive argument
		n := g.deco(bin("+", &Expr{Op: "int", I: int64(g.Intn(6))}, &Expr{Op: "int", I: int64(g.Intn(6))}))
		return []Cmd{{K: "print", Expr: &Expr{Op: "str", S: "abcdefghijklmnop"}, Directives: []Directive{{Name: "truncate", Args: []*Expr{n}}}}}
	case 8: // switch subject and case values
		t := []*Ty{TInt, TString}[g.Intn(2)]
		return []Cmd{{K: "switch", Expr: g.Expr(sc, t, d), Branches: []Branch{
			{Values: []*Expr{g.Expr(sc, t, 1)}, Body: []Cmd{{K: "text", Text: "first"}}},
			{Values: []*Expr{g.Expr(sc, t, 1), g.Expr(sc, t, d)}, Body: []Cmd{{K: "text", Text: "second"}}}},
			HasElse: true, Else: []Cmd{{K: "text", Text: "dflt"}}}}
	case 9: // function arguments
		return []Cmd{{K: "print", Expr: call("max", g.Expr(sc, TInt, d), g.Expr(sc, TInt, d))}}
	case 10: // css prefix
		restore := snapshotUsed(sc)
		e := g.Expr(sc, []*Ty{TString, TInt}[g.Intn(2)], 1)
		if strings.ContainsAny(PrintExpr(e), ",{}") {
			e = &Expr{Op: "str", S: "pre"}
			restore()
		}
		return []Cmd{{K: "css", Expr: e, Text: "suffix"}}
	case 11: // message placeholder and plural subject
		if pg.o.NoMsg {
			return []Cmd{pg.text()}
		}
		return []Cmd{{K: "msg", Desc: "d", Body: []Cmd{{K: "text", Text: "Value: "}, {K: "print", Expr: g.Expr(sc, g.ScalarType(), d)}}},
			{K: "msg", Desc: "p", Body: []Cmd{{K: "plural", Expr: g.deco(bin("%", g.Expr(sc, TInt, 1), &Expr{Op: "int", I: 3})), Branches: []Branch{{Int: 1, Body: []Cmd{{K: "text", Text: "one"}}}}, Else: []Cmd{{K: "text", Text: "many"}}}}}}
	case 12: // loop over a list expression
		t := g.ScalarType()
		return []Cmd{{K: "for", Style: g.Intn(2), Var: v, Expr: g.Expr(sc, &Ty{K: List, Elem: t}, d), Body: []Cmd{{K: "print", Expr: &Expr{Op: "ref", Name: v}}, {K: "text", Text: ";"}}}}
	case 13: // explicit print keyword
		return []Cmd{{K: "print", Style: 1, Expr: g.Expr(sc, pg.printable(1), d)}}
	case 14: // negative numbers where a unary minus meets a delimiter
		neg := &Expr{Op: "int", I: -int64(1 + g.Intn(9))}
		switch g.Intn(5) {
		case 0:
			return []Cmd{{K: "print", Style: g.Intn(2), Expr: neg}}
		case 1:
			return []Cmd{{K: "if", Branches: []Branch{{Cond: neg, Body: []Cmd{{K: "text", Text: "neg"}}}}}}
		case 2:
			return []Cmd{{K: "let", Var: v, Expr: neg}, {K: "print", Expr: &Expr{Op: "ref", Name: v}}}
		case 3:
			return []Cmd{{K: "print", Expr: &Expr{Op: "tern", Args: []*Expr{g.cond(sc, 1), neg, {Op: "neg", Args: []*Expr{g.Expr(sc, TInt, 1)}}}}}}
		}
		return []Cmd{{K: "let", Var: v, Expr: &Expr{Op: "list", Args: []*Expr{neg, {Op: "float", Text: "-0.5"}}}}, {K: "print", Expr: &Expr{Op: "ref", Name: v}}}
	}
	// parenthesised expression starting a print tag
	e := g.Expr(sc, TInt, d)
	e.Paren = true
	return []Cmd{{K: "print", Expr: g.deco(bin(g.Pick("*", "+", "-"), e, g.Expr(sc, TInt, 1)))}}
}

// valuelessPrint: an expression the language leaves without a value, printed after a known prefix.
func (pg *progGen) valuelessPrint(sc *Scope) []Cmd {
	g := pg.G
	v := pg.fresh(letNames)
	pre := Cmd{K: "text", Text: "before|"}
	ref := func(acc ...Access) *Expr { return &Expr{Op: "ref", Name: v, Access: acc} }
	switch g.Intn(7) {
	case 0: // missing map key
		return []Cmd{pre, {K: "let", Var: v, Expr: &Expr{Op: "map", Keys: []string{"a"}, Args: []*Expr{{Op: "int", I: 1}}}}, {K: "print", Expr: ref(g.keyAccess("nokey", false))}}
	case 1: // index past the end
		return []Cmd{pre, {K: "let", Var: v, Expr: &Expr{Op: "list", Args: []*Expr{{Op: "int", I: 1}, {Op: "int", I: 2}}}}, {K: "print", Expr: ref(g.indexAccess(2+g.Intn(3), false))}}
	case 2: // indexing a non-collection
		return []Cmd{pre, {K: "let", Var: v, Expr: g.literal([]*Ty{TString, TInt, TBool}[g.Intn(3)])}, {K: "print", Expr: ref(g.keyAccess("foo", false))}}
	case 3: // ordering non-numbers
		a := g.literal([]*Ty{TString, TBool, TNull}[g.Intn(3)])
		b := g.Expr(sc, TInt, 1)
		if g.Chance(50) {
			a, b = b, a
		}
		return []Cmd{pre, {K: "print", Expr: bin(g.Pick("<", ">", "<=", ">="), a, b)}}
	case 4: // access on null without the null-safe marker
		return []Cmd{pre, {K: "let", Var: v, Expr: &Expr{Op: "null"}}, {K: "print", Expr: ref(g.keyAccess("foo", false))}}
	case 5: // undefined survives a let and a ternary
		return []Cmd{pre, {K: "let", Var: v, Expr: &Expr{Op: "map", Keys: []string{"a"}, Args: []*Expr{{Op: "int", I: 1}}}},
			{K: "print", Expr: &Expr{Op: "tern", Args: []*Expr{{Op: "bool", B: true}, ref(g.keyAccess("zz", false)), {Op: "int", I: 1}}}}}
	}
	// an absent optional param, if there is one
	for i := range sc.Vars {
		if sc.Vars[i].T.Opt && sc.Vars[i].T.K != Null {
			return []Cmd{pre, {K: "if", Branches: []Branch{{Cond: &Expr{Op: "not", Args: []*Expr{call("isNonnull", pg.useVar(&sc.Vars[i]))}}, Body: []Cmd{
				{K: "let", Var: v, Expr: &Expr{Op: "list"}}, {K: "print", Expr: ref(g.indexAccess(0, false))}}}}}}
		}
	}
	return []Cmd{pre, {K: "let", Var: v, Expr: &Expr{Op: "list"}}, {K: "print", Expr: ref(g.indexAccess(0, false))}}
}

// snapshotUsed remembers the "used" marks of every variable in scope; the
// returned function restores them (for a generated expression that is discarded).
func snapshotUsed(sc *Scope) func() {
	saved := make([]bool, len(sc.Vars))
	for i, v := range sc.Vars {
		if v.used != nil {
			saved[i] = *v.used
		}
	}
	return func() {
		for i, v := range sc.Vars {
			if v.used != nil {
				*v.used = saved[i]
			}
		}
	}
}

// scopePattern builds the scoping situations the statement singles out: a let
// or loop variable that shadows an outer name inside a block, followed by a use
// of the outer binding after the block ends; loop helpers on an outer loop
// variable from inside a nested loop.
func (pg *progGen) scopePattern(sc *Scope, depth int) []Cmd {
	g := pg.G
	var out []Cmd
	// an outer binding to shadow: an existing scalar variable or a fresh let
	var outer *Var
	var cands []*Var
	seen := map[string]bool{}
	for i := len(sc.Vars) - 1; i >= 0; i-- {
		v := &sc.Vars[i]
		if seen[v.Name] {
			continue
		}
		seen[v.Name] = true
		if !v.T.Opt && v.T.K != List && v.T.K != Map && v.Name != "depthN" {
			cands = append(cands, v)
		}
	}
	cur := sc
	if len(cands) > 0 && g.Chance(60) {
		outer = cands[g.Intn(len(cands))]
	} else {
		name := pg.fresh(letNames)
		t := g.ScalarType()
		out = append(out, Cmd{K: "let", Var: name, Expr: g.Expr(sc, t, 1)})
		cur = sc.with(Var{Name: name, T: t, used: new(bool)})
		outer = &cur.Vars[len(cur.Vars)-1]
	}
	pg.shadowed[outer.Name] = true
	useOuter := func() Cmd { return Cmd{K: "print", Expr: pg.useVar(outer)} }
	innerT := g.ScalarType()
	variant := g.Intn(7)
	restore := snapshotUsed(cur)
	shadowLet := Cmd{K: "let", Var: outer.Name, Expr: g.Expr(cur, innerT, 1)}
	if variant >= 5 {
		restore() // the shadowing let is not part of these variants
	}
	inner := cur.with(Var{Name: outer.Name, T: innerT, used: new(bool)})
	useInner := Cmd{K: "print", Expr: &Expr{Op: "ref", Name: outer.Name}}
	blockBody := []Cmd{shadowLet, {K: "text", Text: "["}, useInner}
	if variant < 5 && depth > 0 && g.Chance(40) {
		blockBody = append(blockBody, pg.body(inner, depth-1, false)...)
	}
	blockBody = append(blockBody, Cmd{K: "text", Text: "]"})
	switch variant {
	case 0:
		out = append(out, Cmd{K: "if", Branches: []Branch{{Cond: g.cond(cur, 1), Body: blockBody}}, HasElse: true, Else: []Cmd{useOuter()}})
	case 1:
		out = append(out, Cmd{K: "if", Branches: []Branch{{Cond: g.cond(cur, 1), Body: []Cmd{useOuter()}}}, HasElse: true, Else: blockBody})
	case 2:
		out = append(out, Cmd{K: "switch", Expr: &Expr{Op: "int", I: int64(g.Intn(2))}, Branches: []Branch{{Values: []*Expr{{Op: "int", I: 0}}, Body: blockBody}}, HasElse: true, Else: []Cmd{useOuter()}})
	case 3:
		lv := pg.fresh(letNames)
		out = append(out, Cmd{K: "for", Var: lv, Expr: call("range", &Expr{Op: "int", I: int64(g.Intn(3))}), Body: append([]Cmd{{K: "print", Expr: &Expr{Op: "ref", Name: lv}}}, blockBody...)})
		// the let is not first in that block: make it so
		last := &out[len(out)-1]
		last.Body = append(append([]Cmd{}, blockBody...), Cmd{K: "print", Expr: &Expr{Op: "ref", Name: lv}})
	case 4:
		cv := pg.fresh(letNames)
		out = append(out, Cmd{K: "letc", Var: cv, Body: blockBody}, Cmd{K: "print", Expr: &Expr{Op: "ref", Name: cv}})
	case 5:
		// a loop variable reusing the outer name
		items := &Expr{Op: "list", Args: []*Expr{g.Expr(cur, innerT, 1), g.Expr(cur, innerT, 0)}}
		out = append(out, Cmd{K: "for", Style: g.Intn(2), Var: outer.Name, Expr: items, Body: []Cmd{{K: "text", Text: "("}, useInner, {K: "print", Expr: call("index", &Expr{Op: "ref", Name: outer.Name})}, {K: "text", Text: ")"}}})
	case 6:
		// nested loops: helpers on the outer loop variable from the inner loop
		a, b := pg.fresh(letNames), pg.fresh(letNames)
		innerLoop := Cmd{K: "for", Var: b, Expr: call("range", &Expr{Op: "int", I: int64(1 + g.Intn(3))}), Body: []Cmd{
			{K: "print", Expr: call(g.Pick("index", "isFirst", "isLast"), &Expr{Op: "ref", Name: a})},
			{K: "print", Expr: call(g.Pick("index", "isFirst", "isLast"), &Expr{Op: "ref", Name: b})},
			{K: "text", Text: ","}}}
		out = append(out, Cmd{K: "for", Var: a, Expr: &Expr{Op: "list", Args: []*Expr{{Op: "str", S: "p"}, {Op: "str", S: "q"}, {Op: "str", S: "r"}}},
			Body: []Cmd{{K: "print", Expr: &Expr{Op: "ref", Name: a}}, innerLoop, {K: "text", Text: ";"}}})
	}
	// the outer binding again, after the block
	out = append(out, Cmd{K: "text", Text: "|"}, useOuter())
	return out
}
