package ref

import (
	"fmt"
	"strings"
	"unicode/utf8"
)

// Result of rendering a template with the reference interpreter.
//
//	Status OK:          Out is the exact output the language defines.
//	Status Valueless:   the render must fail; Out is the text defined before the failure.
//	Status Unspecified: the case must not be judged; Msg says why.
type Result struct {
	Out    string
	Status Status
	Msg    string
	// Stats about what the run exercised (for class histograms).
	Calls, Shadows, BlockExits int
}

type interp struct {
	p      *Program
	out    *strings.Builder // current writer (main or a capture buffer)
	main   *strings.Builder
	ij     map[string]Value
	hasIJ  bool
	mark   bool // wrap the output of every msg in « »
	oblig  []string // obligatory print directives: applied, without arguments, after every print's own
	depth  int
	steps  int
	res    *Result
	escape bool // effective autoescape of the running template
	file   *File
	env    *Env
	params map[string]Value // the data the running template was entered with (for data="all")
}

// Render runs template fq of p with the given data and injected data.
func Render(p *Program, fq string, data map[string]Value, ij map[string]Value, hasIJ bool) (res Result) {
	return render(p, fq, data, ij, hasIJ, false)
}

// RenderMarked renders like Render with every message wrapped in the marks « and »: what a bundle of
// identity translations whose texts carry those marks makes of the program (messages without plural).
func RenderMarked(p *Program, fq string, data map[string]Value, ij map[string]Value, hasIJ bool) (res Result) {
	return render(p, fq, data, ij, hasIJ, true)
}

// RenderObligatory renders like Render under a configuration whose obligatory print directives are the
// given names (applied in that order after each print command's own directives; a name that is not
// registered makes the print fail).
func RenderObligatory(p *Program, fq string, data map[string]Value, ij map[string]Value, hasIJ bool, names []string) (res Result) {
	return render(p, fq, data, ij, hasIJ, false, names...)
}

func render(p *Program, fq string, data map[string]Value, ij map[string]Value, hasIJ bool, mark bool, oblig ...string) (res Result) {
	main := &strings.Builder{}
	in := &interp{p: p, out: main, main: main, ij: ij, hasIJ: hasIJ, res: &res, mark: mark, oblig: oblig}
	defer func() {
		res.Out = main.String()
		if r := recover(); r != nil {
			if s, ok := r.(*stop); ok {
				res.Status, res.Msg = s.status, s.msg
				return
			}
			panic(r)
		}
	}()
	f, t := p.FindTemplate(fq)
	if t == nil {
		unspecified("entry template %s does not exist", fq)
	}
	if data == nil {
		data = map[string]Value{}
	}
	in.runTemplate(f, t, data)
	return
}

func modeEscapes(mode string, inherited bool) bool {
	switch mode {
	case "":
		return inherited
	case "false":
		return false
	}
	return true // true, contextual, deprecated-contextual
}

func (in *interp) runTemplate(f *File, t *Template, data map[string]Value) {
	in.depth++
	if in.depth > 400 {
		unspecified("call depth bound exceeded")
	}
	sFile, sParams, sEnv, sEscape := in.file, in.params, in.env, in.escape
	in.file = f
	in.params = data
	in.env = &Env{frames: []map[string]Value{data, {}}, ij: in.ij, hasIJ: in.hasIJ, globals: in.p.Globals}
	// namespace default (on when absent), template override; re-derived for each callee
	in.escape = modeEscapes(t.Autoescape, modeEscapes(f.Autoescape, true))
	in.block(t.Body)
	in.file, in.params, in.env, in.escape = sFile, sParams, sEnv, sEscape
	in.depth--
}

// block runs cmds in a fresh scope: lets and loop variables introduced inside
// are visible only until the block ends.
func (in *interp) block(cmds []Cmd) {
	in.env.push()
	lets := 0
	cmds = MergeText(cmds)
	for i := range cmds {
		if cmds[i].K == "let" || cmds[i].K == "letc" {
			lets++
		}
		in.cmd(&cmds[i])
	}
	if lets > 0 {
		in.res.BlockExits++
	}
	in.env.pop()
}

// MergeText joins adjacent text commands: in the source they form one run.
func MergeText(cmds []Cmd) []Cmd {
	need := false
	for i := 1; i < len(cmds); i++ {
		if cmds[i].K == "text" && cmds[i-1].K == "text" {
			need = true
		}
	}
	if !need {
		return cmds
	}
	var out []Cmd
	for _, c := range cmds {
		if c.K == "text" && len(out) > 0 && out[len(out)-1].K == "text" {
			out[len(out)-1].Text += c.Text
			continue
		}
		out = append(out, c)
	}
	return out
}

func (in *interp) capture(cmds []Cmd) string {
	saved := in.out
	buf := &strings.Builder{}
	in.out = buf
	in.block(cmds)
	in.out = saved
	return buf.String()
}

func (in *interp) eval(e *Expr) Value { return eval(e, in.env) }

var specialChars = map[string]string{"sp": " ", "nil": "", "lb": "{", "rb": "}", "nl": "\n", "cr": "\r", "tab": "\t"}

func (in *interp) cmd(c *Cmd) {
	in.steps++
	if in.steps > 200000 {
		unspecified("step bound exceeded")
	}
	switch c.K {
	case "text":
		in.out.WriteString(NormalizeText(c.Text))
	case "sp", "nil", "lb", "rb", "nl", "cr", "tab":
		in.out.WriteString(specialChars[c.K])
	case "literal":
		in.out.WriteString(c.Text)
	case "print":
		in.print(c)
	case "if":
		for _, br := range c.Branches {
			if in.eval(br.Cond).Truthy() {
				in.block(br.Body)
				return
			}
		}
		if c.HasElse {
			in.block(c.Else)
		}
	case "switch":
		v := in.eval(c.Expr)
		for _, br := range c.Branches {
			for _, ve := range br.Values {
				eq, spec := StrictEquals(v, in.eval(ve))
				if !spec {
					unspecified("switch on collections")
				}
				if eq {
					in.block(br.Body)
					return
				}
			}
		}
		if c.HasElse {
			in.block(c.Else)
		}
	case "for":
		l := in.eval(c.Expr)
		if l.K != List {
			unspecified("loop over %s", l.K)
		}
		if len(l.L) == 0 {
			if c.HasElse {
				in.block(c.Else)
			}
			return
		}
		if _, shadow := in.env.lookup(c.Var); shadow {
			in.res.Shadows++
		}
		for i, item := range l.L {
			in.env.push()
			in.env.set(c.Var, item)
			in.env.set(c.Var+" index", I(int64(i)))
			in.env.set(c.Var+" last", I(int64(len(l.L)-1)))
			in.block(c.Body)
			in.env.pop()
		}
	case "let":
		v := in.eval(c.Expr)
		if _, shadow := in.env.lookup(c.Var); shadow {
			in.res.Shadows++
		}
		in.env.set(c.Var, v)
	case "letc":
		s := in.capture(c.Body)
		if _, shadow := in.env.lookup(c.Var); shadow {
			in.res.Shadows++
		}
		in.env.set(c.Var, S(s))
	case "call":
		in.call(c.Call)
	case "css":
		prefix := ""
		if c.Expr != nil {
			prefix = text(in.eval(c.Expr)) + "-"
		}
		in.out.WriteString(prefix + strings.TrimSpace(c.Text))
	case "log":
		in.capture(c.Body) // rendered (errors surface) but not written
	case "debugger":
	case "msg":
		if in.mark {
			in.out.WriteString("«")
		}
		in.msgBody(c.Body)
		if in.mark {
			in.out.WriteString("»")
		}
	default:
		unspecified("unknown command %q", c.K)
	}
}

// msgBody renders a message without a translation bundle: its source text.
func (in *interp) msgBody(cmds []Cmd) {
	cmds = MergeText(cmds)
	for i := range cmds {
		c := &cmds[i]
		switch c.K {
		case "plural":
			v := in.eval(c.Expr)
			if v.K != Int {
				unspecified("plural on %s", v.K)
			}
			done := false
			for _, br := range c.Branches {
				if int64(br.Int) == v.I {
					in.msgBody(br.Body)
					done = true
					break
				}
			}
			if !done {
				in.msgBody(c.Else)
			}
		default:
			in.cmd(c)
		}
	}
}

func (in *interp) call(c *Call) {
	f, t := in.p.FindTemplate(c.Target)
	if t == nil {
		unspecified("call of unknown template %s", c.Target)
	}
	data := map[string]Value{}
	switch {
	case c.DataAll:
		for k, v := range in.params {
			data[k] = v
		}
	case c.Data != nil:
		d := in.eval(c.Data)
		if d.K != Map {
			unspecified("data= of type %s", d.K)
		}
		for k, v := range d.M {
			data[k] = v
		}
	}
	for _, p := range c.Params {
		if p.IsBlock {
			data[p.Key] = S(in.capture(p.Content))
		} else {
			data[p.Key] = in.eval(p.Value)
		}
	}
	in.res.Calls++
	in.runTemplate(f, t, data)
}

func (in *interp) print(c *Cmd) {
	v := in.eval(c.Expr)
	if v.K == Undefined {
		valueless("printing undefined")
	}
	escape := in.escape
	for _, d := range c.Directives {
		args := make([]Value, len(d.Args))
		for i, a := range d.Args {
			args[i] = in.eval(a)
		}
		var cancel bool
		v, cancel = ApplyDirective(d.Name, v, args)
		if cancel {
			escape = false
		}
	}
	for _, name := range in.oblig {
		if name == "verifNoSuch" {
			valueless("obligatory print directive that is not registered")
		}
		var cancel bool
		v, cancel = ApplyDirective(name, v, nil)
		if cancel {
			escape = false
		}
	}
	s := text(v)
	if escape {
		s = EscapeHTML(s)
	}
	in.out.WriteString(s)
}

// ApplyDirective is the exact model of the directives whose output the
// statement fixes completely; for the others (other encodings, break
// placement) it panics with Unspecified - they are judged by decoders in C16.
func ApplyDirective(name string, v Value, args []Value) (Value, bool) {
	switch name {
	case "noAutoescape", "id":
		if len(args) != 0 {
			unspecified("%s with arguments", name)
		}
		return v, true
	case "verifBang":
		// the harness's own directive, registered by the checks that use it
		if len(args) != 0 {
			unspecified("verifBang with arguments")
		}
		return S(text(v) + "!"), false
	case "escapeHtml":
		s := text(v)
		if strings.IndexByte(s, 0) >= 0 {
			unspecified("NUL in escapeHtml")
		}
		return S(EscapeHTML(s)), true
	case "changeNewlineToBr":
		s := text(v)
		if strings.IndexByte(s, 0) >= 0 {
			unspecified("NUL in changeNewlineToBr")
		}
		s = EscapeHTML(s)
		s = strings.ReplaceAll(s, "\r\n", "\n")
		s = strings.ReplaceAll(s, "\r", "\n")
		return S(strings.ReplaceAll(s, "\n", "<br>")), true
	case "insertWordBreaks":
		if len(args) != 1 || args[0].K != Int || args[0].I < 1 {
			unspecified("insertWordBreaks arguments")
		}
		s := text(v)
		if strings.IndexByte(s, 0) >= 0 {
			unspecified("NUL in insertWordBreaks")
		}
		for _, w := range strings.Split(s, " ") {
			if int64(utf8.RuneCountInString(w)) > args[0].I || int64(len(w)) > args[0].I {
				unspecified("placement of word breaks")
			}
		}
		return S(EscapeHTML(s)), true
	case "truncate":
		if len(args) < 1 || len(args) > 2 || args[0].K != Int || args[0].I < 0 {
			unspecified("truncate arguments")
		}
		ellipsis := true
		if len(args) == 2 {
			if args[1].K != Bool {
				unspecified("truncate ellipsis argument")
			}
			ellipsis = args[1].B
		}
		s := text(v)
		n := int(args[0].I)
		if utf8.RuneCountInString(s) <= n { // fits
			return v, false
		}
		if !utf8.ValidString(s) {
			unspecified("truncate of text that is not valid UTF-8")
		}
		if ellipsis && n > 3 {
			return S(TruncateRunes(s, n-3) + "..."), false
		}
		return S(TruncateRunes(s, n)), false
	}
	unspecified("directive %s has no exact model", name)
	return v, false
}

func (r Result) String() string {
	return fmt.Sprintf("%s out=%q %s", r.Status, r.Out, r.Msg)
}
