package ref

import "encoding/binary"

// The message-id function of the official Soy implementation, written from its
// definition (Bob Jenkins' 1996 "lookup2" 32-bit hash run twice with two seeds,
// combined into 64 bits; the meaning is mixed in by a rotate-and-add; the top
// bit is cleared). It is deliberately written differently from the library's
// copy (table-driven tail, explicit rounds) so that it is an independent model.

func mix(a, b, c uint32) (uint32, uint32, uint32) {
	type step struct {
		right bool
		n     uint
	}
	// each round: x -= y; x -= z; x ^= (z shifted)
	for _, st := range []step{{true, 13}, {false, 8}, {true, 13}, {true, 12}, {false, 16}, {true, 5}, {true, 3}, {false, 10}, {true, 15}} {
		a -= b
		a -= c
		if st.right {
			a ^= c >> st.n
		} else {
			a ^= c << st.n
		}
		a, b, c = b, c, a // rotate roles: next round works on (b, c, a)
	}
	return a, b, c
}

func hash32(data []byte, seed uint32) uint32 {
	a, b, c := uint32(0x9e3779b9), uint32(0x9e3779b9), seed
	rest := data
	for len(rest) >= 12 {
		a += binary.LittleEndian.Uint32(rest[0:4])
		b += binary.LittleEndian.Uint32(rest[4:8])
		c += binary.LittleEndian.Uint32(rest[8:12])
		a, b, c = mix(a, b, c)
		rest = rest[12:]
	}
	c += uint32(len(data))
	// the remaining 0..11 bytes: bytes 0-3 go to a, 4-7 to b, 8-10 to the upper three bytes of c
	for i, by := range rest {
		switch {
		case i < 4:
			a += uint32(by) << (8 * uint(i))
		case i < 8:
			b += uint32(by) << (8 * uint(i-4))
		default:
			c += uint32(by) << (8 * uint(i-8+1))
		}
	}
	_, _, c = mix(a, b, c)
	return c
}

// Fingerprint64 is the 64-bit fingerprint of a string.
func Fingerprint64(data []byte) uint64 {
	hi, lo := hash32(data, 0), hash32(data, 102072)
	if hi == 0 && (lo == 0 || lo == 1) {
		hi ^= 0x130f9bef
		lo ^= 0x94a0a928
	}
	return uint64(hi)<<32 | uint64(lo)
}

// MessageID is the id of a message with the given content string (placeholder
// names without braces unless the message has a plural) and meaning.
func MessageID(content, meaning string) uint64 {
	fp := Fingerprint64([]byte(content))
	if meaning != "" {
		top := fp >> 63
		fp = (fp << 1) + top + Fingerprint64([]byte(meaning))
	}
	return fp & 0x7fffffffffffffff
}
