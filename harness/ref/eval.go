package ref

import (
	"fmt"
	"math"
	"sort"
	"strconv"
	"strings"
)

// Status of an evaluation.
//
//	OK          the language defines a value / an output
//	Valueless   the language leaves the expression without a value: the render
//	            must return an error and produce no text for it
//	Unspecified the statement, the repository's documentation and the language
//	            documentation do not fix the outcome; the case is not judged
type Status int

const (
	OK Status = iota
	Valueless
	Unspecified
)

func (s Status) String() string { return [...]string{"ok", "valueless", "unspecified"}[s] }

type stop struct {
	status Status
	msg    string
}

func valueless(format string, a ...interface{}) {
	panic(&stop{Valueless, fmt.Sprintf(format, a...)})
}
func unspecified(format string, a ...interface{}) {
	panic(&stop{Unspecified, fmt.Sprintf(format, a...)})
}

const maxSafeInt = 1 << 53

// Env is the variable environment of one template activation.
type Env struct {
	frames  []map[string]Value
	ij      map[string]Value
	hasIJ   bool
	globals map[string]Value
}

func (e *Env) push()                 { e.frames = append(e.frames, map[string]Value{}) }
func (e *Env) pop()                  { e.frames = e.frames[:len(e.frames)-1] }
func (e *Env) set(k string, v Value) { e.frames[len(e.frames)-1][k] = v }
func (e *Env) lookup(k string) (Value, bool) {
	for i := len(e.frames) - 1; i >= 0; i-- {
		if v, ok := e.frames[i][k]; ok {
			return v, true
		}
	}
	return U(), false
}

// NewEnv builds an environment for standalone expression evaluation.
func NewEnv(data map[string]Value, ij map[string]Value, hasIJ bool, globals map[string]Value) *Env {
	return &Env{frames: []map[string]Value{data, {}}, ij: ij, hasIJ: hasIJ, globals: globals}
}

// EvalExpr evaluates e; the status tells whether v is meaningful.
func EvalExpr(e *Expr, env *Env) (v Value, st Status, msg string) {
	defer func() {
		if r := recover(); r != nil {
			if s, ok := r.(*stop); ok {
				v, st, msg = U(), s.status, s.msg
				return
			}
			panic(r)
		}
	}()
	return eval(e, env), OK, ""
}

func checkInt(i int64) Value {
	if i > maxSafeInt || i < -maxSafeInt {
		unspecified("integer beyond +/-2^53")
	}
	return I(i)
}

func checkFloat(f float64) Value {
	// NaN and the infinities are ordinary IEEE values: both backends print them as NaN / Infinity /
	// -Infinity and compare them by the IEEE rules (every ordering with NaN is false)
	// (negative zero is an ordinary value too: it equals zero and - as in JavaScript, which the Go
	// backend has to agree with - prints as "0")
	return F(f)
}

func text(v Value) string {
	s, ok := v.Text()
	if !ok {
		valueless("undefined has no text")
	}
	return s
}

func num2(op string, a, b Value) {
	if a.K == Undefined || b.K == Undefined {
		unspecified("arithmetic %s on undefined", op)
	}
	if !a.IsNum() || !b.IsNum() {
		unspecified("ill-typed arithmetic %s on %s, %s", op, a.K, b.K)
	}
}

func eval(e *Expr, env *Env) Value {
	switch e.Op {
	case "null":
		return N()
	case "bool":
		return B(e.B)
	case "int":
		return checkInt(e.I)
	case "float":
		f, err := strconv.ParseFloat(e.Text, 64)
		if err != nil {
			unspecified("bad float literal %q", e.Text)
		}
		return checkFloat(f)
	case "str":
		return S(e.S)
	case "list":
		items := make([]Value, len(e.Args))
		for i, a := range e.Args {
			items[i] = eval(a, env)
		}
		return L(items...)
	case "map":
		m := make(map[string]Value, len(e.Args))
		for i, a := range e.Args {
			m[e.Keys[i]] = eval(a, env)
		}
		return M(m)
	case "global":
		v, ok := env.globals[e.Name]
		if !ok {
			unspecified("undefined global %s", e.Name)
		}
		return v
	case "ref":
		return evalRef(e, env)
	case "call":
		return evalFunc(e, env)
	case "neg":
		a := eval(e.Args[0], env)
		switch a.K {
		case Int:
			return checkInt(-a.I)
		case Float:
			return checkFloat(-a.F)
		}
		unspecified("negating %s", a.K)
	case "not":
		return B(!eval(e.Args[0], env).Truthy())
	case "and":
		if !eval(e.Args[0], env).Truthy() {
			return B(false)
		}
		return B(eval(e.Args[1], env).Truthy())
	case "or":
		if eval(e.Args[0], env).Truthy() {
			return B(true)
		}
		return B(eval(e.Args[1], env).Truthy())
	case "?:":
		a := eval(e.Args[0], env)
		if a.K != Null && a.K != Undefined {
			return a
		}
		return eval(e.Args[1], env)
	case "tern":
		if eval(e.Args[0], env).Truthy() {
			return eval(e.Args[1], env)
		}
		return eval(e.Args[2], env)
	case "+":
		a, b := eval(e.Args[0], env), eval(e.Args[1], env)
		if a.K == Undefined || b.K == Undefined {
			unspecified("+ on undefined")
		}
		if a.K == Int && b.K == Int {
			return checkInt(a.I + b.I)
		}
		if a.K == String || b.K == String {
			return S(text(a) + text(b))
		}
		num2("+", a, b)
		return checkFloat(a.Num() + b.Num())
	case "-":
		a, b := eval(e.Args[0], env), eval(e.Args[1], env)
		num2("-", a, b)
		if a.K == Int && b.K == Int {
			return checkInt(a.I - b.I)
		}
		return checkFloat(a.Num() - b.Num())
	case "*":
		a, b := eval(e.Args[0], env), eval(e.Args[1], env)
		num2("*", a, b)
		if a.K == Int && b.K == Int {
			if a.I != 0 && b.I != 0 && abs64(a.I) > maxSafeInt/abs64(b.I) {
				unspecified("integer product beyond 2^53")
			}
			return checkInt(a.I * b.I)
		}
		return checkFloat(a.Num() * b.Num())
	case "/":
		a, b := eval(e.Args[0], env), eval(e.Args[1], env)
		num2("/", a, b)
		return checkFloat(a.Num() / b.Num()) // float division: x/0 is an infinity or NaN
	case "%":
		a, b := eval(e.Args[0], env), eval(e.Args[1], env)
		if a.K != Int || b.K != Int {
			unspecified("%% on %s, %s", a.K, b.K)
		}
		if b.I == 0 {
			unspecified("modulo by zero")
		}
		return I(a.I % b.I)
	case "<", ">", "<=", ">=":
		a, b := eval(e.Args[0], env), eval(e.Args[1], env)
		if !a.IsNum() || !b.IsNum() {
			valueless("ordering non-numbers: %s %s %s", a.K, e.Op, b.K)
		}
		x, y := a.Num(), b.Num()
		switch e.Op {
		case "<":
			return B(x < y)
		case ">":
			return B(x > y)
		case "<=":
			return B(x <= y)
		}
		return B(x >= y)
	case "==", "!=":
		a, b := eval(e.Args[0], env), eval(e.Args[1], env)
		eq, spec := StrictEquals(a, b)
		if !spec {
			unspecified("equality of two collections (identity)")
		}
		if e.Op == "!=" {
			return B(!eq)
		}
		return B(eq)
	}
	unspecified("unknown expression kind %q", e.Op)
	return U()
}

func abs64(i int64) int64 {
	if i < 0 {
		return -i
	}
	return i
}

func evalRef(e *Expr, env *Env) Value {
	var cur Value
	if e.Name == "ij" {
		if !env.hasIJ {
			valueless("$ij referenced but no injected data provided")
		}
		cur = M(env.ij)
	} else {
		cur, _ = env.lookup(e.Name)
	}
	for _, ac := range e.Access {
		// resolve the key first (the key expression is evaluated even if the base is null)
		var (
			isIndex bool
			index   int
			key     string
		)
		switch ac.Kind {
		case "key":
			key = ac.Key
		case "index":
			isIndex, index = true, ac.Index
		case "expr":
			k := eval(ac.Expr, env)
			switch k.K {
			case Int:
				isIndex, index = true, int(k.I)
			case String:
				key = k.S
			default:
				unspecified("access key of type %s", k.K)
			}
		}
		switch cur.K {
		case Undefined, Null:
			if ac.NullSafe {
				return N()
			}
			valueless("access on null or undefined")
		case List:
			if !isIndex {
				unspecified("list accessed with a string key") // not in the statement's list
			}
			if index < 0 || index >= len(cur.L) {
				cur = U()
			} else {
				cur = cur.L[index]
			}
		case Map:
			if isIndex {
				unspecified("map accessed with an integer")
			}
			if key == "" {
				unspecified("empty map key")
			}
			if v, ok := cur.M[key]; ok {
				cur = v
			} else {
				cur = U()
			}
		default:
			valueless("indexing a non-collection (%s)", cur.K)
		}
	}
	return cur
}

func roundHalfAway(x float64) float64 {
	if x < 0 {
		return math.Ceil(x - 0.5)
	}
	return math.Floor(x + 0.5)
}

func evalFunc(e *Expr, env *Env) Value {
	switch e.Name {
	case "index", "isFirst", "isLast":
		if len(e.Args) != 1 || e.Args[0].Op != "ref" || len(e.Args[0].Access) != 0 {
			unspecified("loop function on a non-variable")
		}
		name := e.Args[0].Name
		idx, ok1 := env.lookup(name + " index")
		last, ok2 := env.lookup(name + " last")
		if !ok1 || !ok2 {
			unspecified("loop function on a non-loop variable")
		}
		switch e.Name {
		case "index":
			return idx
		case "isFirst":
			return B(idx.I == 0)
		}
		return B(idx.I == last.I)
	}
	// length(keys(m)) does not depend on the (unspecified) key order
	if e.Name == "length" && len(e.Args) == 1 && e.Args[0].Op == "call" && e.Args[0].Name == "keys" && len(e.Args[0].Args) == 1 {
		m := eval(e.Args[0].Args[0], env)
		if m.K != Map {
			unspecified("keys of %s", m.K)
		}
		return I(int64(len(m.M)))
	}
	args := make([]Value, len(e.Args))
	for i, a := range e.Args {
		args[i] = eval(a, env)
	}
	arity := func(ns ...int) {
		for _, n := range ns {
			if len(args) == n {
				return
			}
		}
		unspecified("%s called with %d arguments", e.Name, len(args))
	}
	numArg := func(i int) float64 {
		if !args[i].IsNum() {
			unspecified("%s on %s", e.Name, args[i].K)
		}
		return args[i].Num()
	}
	switch e.Name {
	case "isNonnull":
		arity(1)
		return B(args[0].K != Null && args[0].K != Undefined)
	case "length":
		arity(1)
		if args[0].K != List {
			unspecified("length of %s", args[0].K)
		}
		return I(int64(len(args[0].L)))
	case "keys":
		arity(1)
		if args[0].K != Map {
			unspecified("keys of %s", args[0].K)
		}
		if len(args[0].M) > 1 {
			unspecified("order of keys()")
		}
		var ks []Value
		for k := range args[0].M {
			ks = append(ks, S(k))
		}
		return L(ks...)
	case "augmentMap":
		arity(2)
		if args[0].K != Map || args[1].K != Map {
			unspecified("augmentMap on %s, %s", args[0].K, args[1].K)
		}
		m := map[string]Value{}
		for k, v := range args[0].M {
			m[k] = v
		}
		for k, v := range args[1].M {
			m[k] = v
		}
		return M(m)
	case "round":
		arity(1, 2)
		x := numArg(0)
		digits := int64(0)
		if len(args) == 2 {
			if args[1].K != Int {
				unspecified("round digits of type %s", args[1].K)
			}
			digits = args[1].I
		}
		if digits < 0 || digits > 12 {
			unspecified("round with %d digits", digits)
		}
		scaled := x * math.Pow(10, float64(digits))
		if math.IsNaN(scaled) || math.Abs(scaled) >= 1<<52 {
			unspecified("round of a huge number")
		}
		if scaled < 0 && scaled-math.Floor(scaled) == 0.5 {
			unspecified("round of a negative half-way value (Java/JS round half up, the repository pins half away from zero)")
		}
		r := roundHalfAway(scaled)
		if digits == 0 {
			return checkInt(int64(r))
		}
		return checkFloat(r / math.Pow(10, float64(digits)))
	case "floor", "ceiling":
		arity(1)
		if args[0].K == Int {
			return args[0]
		}
		x := numArg(0)
		if math.IsNaN(x) || math.Abs(x) >= 1<<52 {
			unspecified("floor/ceiling of a huge number or NaN")
		}
		if e.Name == "floor" {
			return I(int64(math.Floor(x)))
		}
		return I(int64(math.Ceil(x)))
	case "min", "max":
		arity(2)
		x, y := numArg(0), numArg(1)
		if args[0].K == Int && args[1].K == Int {
			if (e.Name == "min") == (args[0].I < args[1].I) {
				return args[0]
			}
			return args[1]
		}
		if e.Name == "min" {
			return checkFloat(math.Min(x, y))
		}
		return checkFloat(math.Max(x, y))
	case "verifFn":
		// the harness's own function, registered by the checks that use it: the number of its arguments
		if len(args) > 1 {
			unspecified("verifFn with %d arguments", len(args))
		}
		return I(int64(len(args)))
	case "verifTag", "aTag":
		arity(1)
		if args[0].K != String {
			unspecified("verifTag of %s", args[0].K)
		}
		return S("<" + args[0].S + ">")
	case "randomInt":
		arity(1)
		if args[0].K == Int && args[0].I == 1 {
			return I(0)
		}
		unspecified("randomInt value")
	case "strContains":
		arity(2)
		if args[0].K != String || args[1].K != String {
			unspecified("strContains on %s, %s", args[0].K, args[1].K)
		}
		return B(strings.Contains(args[0].S, args[1].S))
	case "hasData":
		arity(0)
		return B(true)
	case "range":
		arity(1, 2, 3)
		for _, a := range args {
			if a.K != Int {
				unspecified("range on %s", a.K)
			}
		}
		start, end, step := int64(0), int64(0), int64(1)
		switch len(args) {
		case 1:
			end = args[0].I
		case 2:
			start, end = args[0].I, args[1].I
		case 3:
			start, end, step = args[0].I, args[1].I, args[2].I
		}
		if step <= 0 {
			unspecified("range with a non-positive step")
		}
		if (end-start)/step > 20000 {
			unspecified("huge range")
		}
		var l []Value
		for i := start; i < end; i += step {
			l = append(l, I(i))
		}
		return L(l...)
	}
	unspecified("unknown function %s", e.Name)
	return U()
}

// SortedKeys returns the keys of m in sorted order.
func SortedKeys(m map[string]Value) []string {
	ks := make([]string, 0, len(m))
	for k := range m {
		ks = append(ks, k)
	}
	sort.Strings(ks)
	return ks
}
