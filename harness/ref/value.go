// Package ref is the oracle side: a reference semantics for the Soy language
// written from the language definition. It never calls code under /repo.
package ref

import (
	"encoding/json"
	"fmt"
	"math"
	"sort"
	"strconv"
	"strings"
	"unicode/utf8"
)

type Kind int

const (
	Undefined Kind = iota
	Null
	Bool
	Int
	Float
	String
	List
	Map
)

func (k Kind) String() string {
	return [...]string{"undefined", "null", "bool", "int", "float", "string", "list", "map"}[k]
}

// Value is a Soy value. Lists and maps are immutable trees here (the language
// has no mutation); identity-based equality of collections is "unspecified".
type Value struct {
	K Kind
	B bool
	I int64
	F float64
	S string
	L []Value
	M map[string]Value
}

func U() Value                       { return Value{K: Undefined} }
func N() Value                       { return Value{K: Null} }
func B(b bool) Value                 { return Value{K: Bool, B: b} }
func I(i int64) Value                { return Value{K: Int, I: i} }
func F(f float64) Value              { return Value{K: Float, F: f} }
func S(s string) Value               { return Value{K: String, S: s} }
func L(items ...Value) Value         { return Value{K: List, L: items} }
func M(items map[string]Value) Value { return Value{K: Map, M: items} }

// jsonValue is the serialised form (floats as strings so NaN/Inf survive).
type jsonValue struct {
	K  string           `json:"k"`
	B  *bool            `json:"b,omitempty"`
	I  *int64           `json:"i,omitempty"`
	F  *string          `json:"f,omitempty"`
	S  *string          `json:"s,omitempty"`
	SB []byte           `json:"s_bytes,omitempty"` // string that is not valid UTF-8
	L  []Value          `json:"l,omitempty"`
	M  map[string]Value `json:"m,omitempty"`
}

func (v Value) MarshalJSON() ([]byte, error) {
	j := jsonValue{K: v.K.String()}
	switch v.K {
	case Bool:
		j.B = &v.B
	case Int:
		j.I = &v.I
	case Float:
		s := strconv.FormatFloat(v.F, 'g', -1, 64)
		j.F = &s
	case String:
		if utf8.ValidString(v.S) {
			j.S = &v.S
		} else {
			j.SB = []byte(v.S)
		}
	case List:
		j.L = v.L
		if j.L == nil {
			j.L = []Value{}
		}
	case Map:
		j.M = v.M
		if j.M == nil {
			j.M = map[string]Value{}
		}
	}
	return json.Marshal(j)
}

func (v *Value) UnmarshalJSON(b []byte) error {
	var j jsonValue
	if err := json.Unmarshal(b, &j); err != nil {
		return err
	}
	*v = Value{}
	switch j.K {
	case "undefined":
		v.K = Undefined
	case "null":
		v.K = Null
	case "bool":
		v.K = Bool
		if j.B != nil {
			v.B = *j.B
		}
	case "int":
		v.K = Int
		if j.I != nil {
			v.I = *j.I
		}
	case "float":
		v.K = Float
		if j.F != nil {
			f, err := strconv.ParseFloat(*j.F, 64)
			if err != nil {
				return err
			}
			v.F = f
		}
	case "string":
		v.K = String
		if j.S != nil {
			v.S = *j.S
		}
		if j.SB != nil {
			v.S = string(j.SB)
		}
	case "list":
		v.K = List
		v.L = j.L
	case "map":
		v.K = Map
		v.M = j.M
		if v.M == nil {
			v.M = map[string]Value{}
		}
	default:
		return fmt.Errorf("bad value kind %q", j.K)
	}
	return nil
}

// Truthy follows the language table: null, undefined, false, 0, 0.0, NaN and
// "" are falsy; everything else (including empty lists and maps) is truthy.
func (v Value) Truthy() bool {
	switch v.K {
	case Undefined, Null:
		return false
	case Bool:
		return v.B
	case Int:
		return v.I != 0
	case Float:
		return v.F != 0 && !math.IsNaN(v.F)
	case String:
		return v.S != ""
	}
	return true
}

func (v Value) IsNum() bool { return v.K == Int || v.K == Float }

func (v Value) Num() float64 {
	if v.K == Int {
		return float64(v.I)
	}
	return v.F
}

// FloatText is the text of a float. The repository pins nothing beyond simple
// cases and the JS backend prints with JavaScript's Number-to-string, which is
// also what the language documentation shows; this is that algorithm.
func FloatText(f float64) string {
	switch {
	case math.IsNaN(f):
		return "NaN"
	case math.IsInf(f, 1):
		return "Infinity"
	case math.IsInf(f, -1):
		return "-Infinity"
	case f == 0:
		return "0"
	}
	neg := f < 0
	if neg {
		f = -f
	}
	// shortest round-trip digits
	s := strconv.FormatFloat(f, 'e', -1, 64) // d.ddddde±xx
	mant, expS, _ := strings.Cut(s, "e")
	exp, _ := strconv.Atoi(expS)
	digits := strings.Replace(mant, ".", "", 1)
	k := len(digits)
	n := exp + 1 // position of the decimal point relative to the digits
	var out string
	switch {
	case k <= n && n <= 21:
		out = digits + strings.Repeat("0", n-k)
	case 0 < n && n <= 21:
		out = digits[:n] + "." + digits[n:]
	case -6 < n && n <= 0:
		out = "0." + strings.Repeat("0", -n) + digits
	default:
		e := n - 1
		sign := "+"
		if e < 0 {
			sign = "-"
			e = -e
		}
		if k == 1 {
			out = digits + "e" + sign + strconv.Itoa(e)
		} else {
			out = digits[:1] + "." + digits[1:] + "e" + sign + strconv.Itoa(e)
		}
	}
	if neg {
		return "-" + out
	}
	return out
}

// Text is the printed form of a value. ok=false means the value has no text
// (undefined), which is an error wherever text is required.
func (v Value) Text() (string, bool) {
	switch v.K {
	case Undefined:
		return "", false
	case Null:
		return "null", true
	case Bool:
		return strconv.FormatBool(v.B), true
	case Int:
		return strconv.FormatInt(v.I, 10), true
	case Float:
		return FloatText(v.F), true
	case String:
		return v.S, true
	case List:
		parts := make([]string, len(v.L))
		for i, it := range v.L {
			t, ok := it.Text()
			if !ok {
				return "", false
			}
			parts[i] = t
		}
		return "[" + strings.Join(parts, ", ") + "]", true
	case Map:
		parts := make([]string, 0, len(v.M))
		for k, it := range v.M {
			t, ok := it.Text()
			if !ok {
				t = "undefined"
			}
			parts = append(parts, k+": "+t)
		}
		sort.Strings(parts)
		return "{" + strings.Join(parts, ", ") + "}", true
	}
	return "", false
}

// StrictEquals is the language's == on primitives: same type and same value,
// with int and float compared numerically. Collections compare by identity,
// which a tree model cannot represent: specified=false for two collections of
// the same kind.
func StrictEquals(a, b Value) (eq bool, specified bool) {
	if a.IsNum() && b.IsNum() {
		if a.K == Int && b.K == Int {
			return a.I == b.I, true
		}
		return a.Num() == b.Num(), true
	}
	if a.K != b.K {
		return false, true
	}
	switch a.K {
	case Undefined, Null:
		return true, true
	case Bool:
		return a.B == b.B, true
	case String:
		return a.S == b.S, true
	}
	return false, false
}

// DeepEqual is structural equality (used by oracles, not by the language).
func DeepEqual(a, b Value) bool {
	if a.K != b.K {
		return false
	}
	switch a.K {
	case Bool:
		return a.B == b.B
	case Int:
		return a.I == b.I
	case Float:
		return a.F == b.F || (math.IsNaN(a.F) && math.IsNaN(b.F))
	case String:
		return a.S == b.S
	case List:
		if len(a.L) != len(b.L) {
			return false
		}
		for i := range a.L {
			if !DeepEqual(a.L[i], b.L[i]) {
				return false
			}
		}
		return true
	case Map:
		if len(a.M) != len(b.M) {
			return false
		}
		for k, x := range a.M {
			y, ok := b.M[k]
			if !ok || !DeepEqual(x, y) {
				return false
			}
		}
		return true
	}
	return true
}

// Depth is the nesting depth of collections (a scalar is 0).
func (v Value) Depth() int {
	d := 0
	switch v.K {
	case List:
		for _, it := range v.L {
			if x := it.Depth(); x > d {
				d = x
			}
		}
		return d + 1
	case Map:
		for _, it := range v.M {
			if x := it.Depth(); x > d {
				d = x
			}
		}
		return d + 1
	}
	return 0
}

func (v Value) GoString() string {
	b, _ := json.Marshal(v)
	return string(b)
}
