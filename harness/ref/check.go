package ref

import "fmt"

// The reference static checker: the data-reference rules of the statement,
// resolved by binding (not by name):
//
//	1. every variable reference is bound by a declared param, an enclosing let
//	   or loop, or is $ij; a let is in scope after its definition until the end
//	   of its block, a loop variable only inside the loop body; index($x),
//	   isFirst($x) and isLast($x) refer to the position of a loop variable and
//	   are bound by an enclosing loop over $x only;
//	2. every declared param and every let is used (a param also counts as used
//	   when a data="all" call forwards it to a callee that declares it);
//	3. every call names an existing template, passes only params the callee
//	   declares and - unless it passes data="$expr" - all required ones;
//	4. a let may not be named ij; a template may not declare params both in
//	   soydoc and in the header; a msg contains no let.
//
// Check returns the list of rule violations (empty = the bundle is valid).

type binding struct {
	name string
	kind string // param let loop
	used bool
}

type checker struct {
	p     *Program
	file  *File
	tmpl  *Template
	stack []*binding
	errs  []string
}

func Check(p *Program) []string {
	var errs []string
	seen := map[string]bool{}
	for fi := range p.Files {
		f := &p.Files[fi]
		for ti := range f.Templates {
			t := &f.Templates[ti]
			fq := f.Namespace + "." + t.Name
			if seen[fq] {
				errs = append(errs, "duplicate template "+fq)
			}
			seen[fq] = true
			c := &checker{p: p, file: f, tmpl: t}
			if t.BothDecls && len(t.Params) > 0 {
				c.errf("template %s declares params both in soydoc and in the header", fq)
			}
			for _, pd := range t.Params {
				c.stack = append(c.stack, &binding{name: pd.Name, kind: "param"})
			}
			np := len(c.stack)
			c.block(t.Body)
			for _, b := range c.stack[:np] {
				if !b.used {
					c.errf("template %s: param %s is unused", fq, b.name)
				}
			}
			errs = append(errs, c.errs...)
		}
	}
	return errs
}

func (c *checker) errf(format string, a ...interface{}) {
	c.errs = append(c.errs, fmt.Sprintf(format, a...))
}

func (c *checker) resolve(name string) *binding {
	for i := len(c.stack) - 1; i >= 0; i-- {
		if c.stack[i].name == name {
			return c.stack[i]
		}
	}
	return nil
}

func (c *checker) expr(e *Expr) {
	e.Walk(func(x *Expr) {
		if x.Op == "call" && (x.Name == "index" || x.Name == "isFirst" || x.Name == "isLast") {
			// the position functions refer to the iteration state of a loop variable: that is bound by
			// the loop whose variable the name refers to at that place, and by nothing else (a param or a let has no position)
			bound := false
			if len(x.Args) == 1 && x.Args[0].Op == "ref" && len(x.Args[0].Access) == 0 {
				if b := c.resolve(x.Args[0].Name); b != nil && b.kind == "loop" {
					bound = true // (the innermost binding of the name: a let inside the loop hides the variable)
				}
			}
			if !bound {
				c.errf("template %s: %s() is not given the variable of an enclosing loop", c.tmpl.Name, x.Name)
			}
		}
		if x.Op != "ref" || x.Name == "ij" {
			return
		}
		if b := c.resolve(x.Name); b != nil {
			b.used = true
		} else {
			c.errf("template %s: $%s is not bound", c.tmpl.Name, x.Name)
		}
	})
}

func (c *checker) block(cmds []Cmd) {
	mark := len(c.stack)
	for i := range cmds {
		c.cmd(&cmds[i])
	}
	for _, b := range c.stack[mark:] {
		if b.kind == "let" && !b.used {
			c.errf("template %s: let $%s is unused", c.tmpl.Name, b.name)
		}
	}
	c.stack = c.stack[:mark]
}

func (c *checker) cmd(cm *Cmd) {
	switch cm.K {
	case "print":
		c.expr(cm.Expr)
		for _, d := range cm.Directives {
			for _, a := range d.Args {
				c.expr(a)
			}
		}
	case "if":
		for _, br := range cm.Branches {
			c.expr(br.Cond)
			c.block(br.Body)
		}
		if cm.HasElse {
			c.block(cm.Else)
		}
	case "switch":
		c.expr(cm.Expr)
		for _, br := range cm.Branches {
			for _, v := range br.Values {
				c.expr(v)
			}
			c.block(br.Body)
		}
		if cm.HasElse {
			c.block(cm.Else)
		}
	case "for":
		if cm.Var == "ij" {
			// ($ij is the injected data everywhere: a local of that name could never be read)
			c.errf("template %s: a loop variable may not be named ij", c.tmpl.Name)
		}
		c.expr(cm.Expr) // the loop variable is not in scope in the list expression
		c.stack = append(c.stack, &binding{name: cm.Var, kind: "loop"})
		c.block(cm.Body)
		c.stack = c.stack[:len(c.stack)-1]
		if cm.HasElse {
			c.block(cm.Else)
		}
	case "let":
		if cm.Var == "ij" {
			c.errf("template %s: let may not be named ij", c.tmpl.Name)
		}
		c.expr(cm.Expr) // not in scope in its own definition
		c.stack = append(c.stack, &binding{name: cm.Var, kind: "let"})
	case "letc":
		if cm.Var == "ij" {
			c.errf("template %s: let may not be named ij", c.tmpl.Name)
		}
		c.block(cm.Body)
		c.stack = append(c.stack, &binding{name: cm.Var, kind: "let"})
	case "call":
		c.call(cm.Call)
	case "css":
		if cm.Expr != nil {
			c.expr(cm.Expr)
		}
	case "log":
		c.block(cm.Body)
	case "msg":
		// a message holds text, print commands and one plural - no variable definitions
		var scan func(cs []Cmd)
		scan = func(cs []Cmd) {
			for _, x := range cs {
				if x.K == "let" || x.K == "letc" {
					c.errf("template %s: {let $%s} inside a msg", c.tmpl.Name, x.Var)
				}
				for _, br := range x.Branches {
					scan(br.Body)
				}
				scan(x.Else)
			}
		}
		scan(cm.Body)
		c.block(cm.Body)
	case "plural":
		c.expr(cm.Expr)
		for _, br := range cm.Branches {
			c.block(br.Body)
		}
		c.block(cm.Else)
	}
}

func (c *checker) call(call *Call) {
	_, callee := c.p.FindTemplate(call.Target)
	if callee == nil {
		c.errf("template %s: call of unknown template %s", c.tmpl.Name, call.Target)
	}
	if call.Data != nil {
		c.expr(call.Data)
	}
	declared := map[string]bool{}
	required := map[string]bool{}
	if callee != nil {
		for _, pd := range callee.Params {
			declared[pd.Name] = true
			if !pd.Optional {
				required[pd.Name] = true
			}
		}
	}
	passed := map[string]bool{}
	if call.DataAll {
		for _, pd := range c.tmpl.Params {
			if declared[pd.Name] {
				passed[pd.Name] = true
				// the template's own param is forwarded (whatever shadows it at this point)
				for _, b := range c.stack {
					if b.kind == "param" && b.name == pd.Name {
						b.used = true
					}
				}
			}
		}
	}
	for _, pr := range call.Params {
		if pr.IsBlock {
			c.block(pr.Content)
		} else {
			c.expr(pr.Value)
		}
		passed[pr.Key] = true
		if callee != nil && !declared[pr.Key] {
			c.errf("template %s: call passes %s which %s does not declare", c.tmpl.Name, pr.Key, call.Target)
		}
	}
	if callee != nil && call.Data == nil {
		for name := range required {
			if !passed[name] {
				c.errf("template %s: call of %s does not pass required param %s", c.tmpl.Name, call.Target, name)
			}
		}
	}
}
