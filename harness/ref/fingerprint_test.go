package ref

import "testing"

// Known answers from the official Java implementation (closure-templates
// examples_extracted.xlf; the repository's soymsg tests quote the same numbers).
func TestKnownIDs(t *testing.T) {
	for _, c := range []struct {
		content, meaning string
		id               uint64
	}{
		{"Archive", "noun", 7224011416745566687},
		{"Archive", "verb", 4826315192146469447},
		{"A trip was taken.", "", 3329840836245051515},
		{"Your favorite keyword", "", 2209690285855487595},
		{"Help", "", 7911416166208830577},
		{"NAME took a trip to DESTINATION.", "", 768490705511913603},
		{"PI is nowhere near the value of pi.", "", 889614911019327165},
		{"NAME took a trip.", "", 3179387603303514412},
		{"The set of SET_NAME is {XXX, ...}.", "", 135956960462609535},
		{"{EGGS_1,plural,=1{You have one egg}other{You have {EGGS_2} eggs}}", "", 176798647517908084},
	} {
		if got := MessageID(c.content, c.meaning); got != c.id {
			t.Errorf("MessageID(%q, %q) = %d, want %d", c.content, c.meaning, got, c.id)
		}
	}
}
