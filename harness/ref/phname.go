package ref

import "strings"

// Placeholder base names as the official Soy algorithm derives them.
//
// UpperUnderscore is BaseUtils.convertToUpperUnderscore: strip leading and
// trailing underscores, put an underscore at every word boundary
//
//	<letter>|<upper><lower>     <letter>|<digit>     <digit>|<letter>
//
// (all boundaries of the identifier at once: the official patterns are
// zero-width look-arounds), collapse runs of underscores, upper-case.
func UpperUnderscore(ident string) string {
	s := strings.Trim(ident, "_")
	isUpper := func(c byte) bool { return 'A' <= c && c <= 'Z' }
	isLower := func(c byte) bool { return 'a' <= c && c <= 'z' }
	isLetter := func(c byte) bool { return isUpper(c) || isLower(c) }
	isDigit := func(c byte) bool { return '0' <= c && c <= '9' }
	var b []byte
	for i := 0; i < len(s); i++ {
		if i > 0 {
			p, c := s[i-1], s[i]
			switch {
			case isLetter(p) && isUpper(c) && i+1 < len(s) && isLower(s[i+1]),
				isLetter(p) && isDigit(c),
				isDigit(p) && isLetter(c):
				b = append(b, '_')
			}
		}
		b = append(b, s[i])
	}
	var out []byte
	for i, c := range b {
		if c == '_' && i > 0 && b[i-1] == '_' {
			continue
		}
		out = append(out, c)
	}
	return strings.ToUpper(string(out))
}

// ExprBaseName is the base name of a printed expression or plural value: the
// last key of a data reference that ends in a key, the variable name of a bare
// reference, the last segment of a global's name; every other expression gets the fallback.
func ExprBaseName(e *Expr, fallback string) string {
	switch e.Op {
	case "global":
		// the part after the last dot
		return UpperUnderscore(e.Name[strings.LastIndex(e.Name, ".")+1:])
	case "ref":
		if len(e.Access) == 0 {
			return UpperUnderscore(e.Name)
		}
		if last := e.Access[len(e.Access)-1]; last.Kind == "key" {
			return UpperUnderscore(last.Key)
		}
	}
	return fallback
}

var tagPretty = map[string]string{
	"a": "link", "br": "break", "b": "bold", "i": "italic", "li": "item", "ol": "ordered_list",
	"ul": "unordered_list", "p": "paragraph", "img": "image", "em": "emphasis",
}

// TagBaseName is the base name of an HTML tag inside a message: START_ / END_ /
// nothing for a self-closing tag, then the pretty name of the (lower-cased) tag.
func TagBaseName(tag string) string {
	kind := "START_"
	switch {
	case strings.HasPrefix(tag, "</"):
		kind = "END_"
	case strings.HasSuffix(tag, "/>"):
		kind = ""
	}
	t := strings.TrimPrefix(strings.TrimPrefix(tag, "<"), "/")
	n := 0
	for n < len(t) && (t[n] >= 'a' && t[n] <= 'z' || t[n] >= 'A' && t[n] <= 'Z' || t[n] >= '0' && t[n] <= '9') {
		n++
	}
	name := strings.ToLower(t[:n])
	if p, ok := tagPretty[name]; ok {
		name = p
	}
	return UpperUnderscore(kind + name)
}
