package ref

// The program model: a typed description of Soy bundles that is independent of
// the implementation's ast package. Everything is plain data (JSON-able) so a
// generated case can be written out, shrunk and replayed.

type Expr struct {
	Op     string   `json:"op"`               // null bool int float str list map ref global call neg not tern, or a binary operator symbol
	B      bool     `json:"b,omitempty"`      // bool literal
	I      int64    `json:"i,omitempty"`      // int literal
	Hex    bool     `json:"hex,omitempty"`    // print the int literal as 0x…
	Text   string   `json:"text,omitempty"`   // float literal source text (its value is the value of that text)
	S      string   `json:"s,omitempty"`      // string literal value
	Esc    int      `json:"esc,omitempty"`    // string literal spelling: 0 minimal escapes, 1 \uXXXX for everything non-alphanumeric, 2 the double quote escaped too, 3 line breaks and tabs written as they are
	Name   string   `json:"name,omitempty"`   // variable, global or function name
	Args   []*Expr  `json:"args,omitempty"`   // operands / list items / map values / function arguments
	Keys   []string `json:"keys,omitempty"`   // map literal keys (parallel to Args)
	Access []Access `json:"access,omitempty"` // data reference accesses
	Paren  bool     `json:"paren,omitempty"`  // print with redundant parentheses
	Tight  bool     `json:"tight,omitempty"`  // print a symbolic binary operator without surrounding spaces
}

type Access struct {
	Kind     string `json:"kind"` // key index expr
	NullSafe bool   `json:"nullsafe,omitempty"`
	Key      string `json:"key,omitempty"`
	Index    int    `json:"index,omitempty"`
	Expr     *Expr  `json:"expr,omitempty"`
}

type Directive struct {
	Name string  `json:"name"`
	Args []*Expr `json:"args,omitempty"`
}

type Branch struct {
	Cond    *Expr   `json:"cond,omitempty"`   // if / elseif condition
	Values  []*Expr `json:"values,omitempty"` // switch case values
	Int     int     `json:"int,omitempty"`    // plural case value
	Default bool    `json:"default,omitempty"`
	Body    []Cmd   `json:"body,omitempty"`
}

type Param struct {
	Key     string `json:"key"`
	Value   *Expr  `json:"value,omitempty"`
	Content []Cmd  `json:"content,omitempty"`
	IsBlock bool   `json:"isblock,omitempty"`
	Style   int    `json:"style,omitempty"` // 0 shorthand, 1 key="…" value="…" attribute syntax
}

type Call struct {
	Target  string  `json:"target"`            // fully qualified template name
	Style   int     `json:"style,omitempty"`   // 0 relative (.name) when same namespace else qualified; 1 qualified; 2 via alias; 3 name="…" attribute; 4 via an alias of a proper prefix of the namespace
	DataAll bool    `json:"dataall,omitempty"` // data="all"
	Data    *Expr   `json:"data,omitempty"`    // data="$expr"
	Params  []Param `json:"params,omitempty"`
}

// Cmd is one template command.
//
//	text      Text is raw template text exactly as it appears in the source (it is subject to line joining)
//	sp nil lb rb nl cr tab   special character commands
//	literal   Text emitted verbatim
//	print     Expr, Directives; Style 0 implicit, 1 "print" keyword
//	if        Branches (first is {if}, later {elseif}); Else (nil = no else, non-nil = {else})
//	switch    Expr, Branches (cases); Else = default body when HasElse
//	for       Var, Expr (list), Body, Else = ifempty when HasElse; Style 0 {for}, 1 {foreach}
//	let       Var, Expr
//	letc      Var, Body
//	call      Call
//	css       Expr (may be nil), Text suffix
//	log       Body
//	debugger
//	msg       Desc, Meaning, Body (text / print / plural only)
//	plural    Expr, Branches (Int cases), Else default   (only inside msg)
type Cmd struct {
	K          string      `json:"k"`
	Text       string      `json:"text,omitempty"`
	Expr       *Expr       `json:"expr,omitempty"`
	Directives []Directive `json:"directives,omitempty"`
	Var        string      `json:"var,omitempty"`
	Branches   []Branch    `json:"branches,omitempty"`
	Body       []Cmd       `json:"body,omitempty"`
	Else       []Cmd       `json:"else,omitempty"`
	HasElse    bool        `json:"haselse,omitempty"`
	Call       *Call       `json:"call,omitempty"`
	Desc       string      `json:"desc,omitempty"`
	Meaning    string      `json:"meaning,omitempty"`
	Style      int         `json:"style,omitempty"`
	// Gap is layout (white space and comments) written where the grammar takes no content: between
	// {switch} / {plural} and the first {case}, between {call}, its {param}s and {/call}.
	Gap string `json:"gap,omitempty"`
}

type ParamDecl struct {
	Name     string `json:"name"`
	Optional bool   `json:"optional,omitempty"`
}

type Template struct {
	Name       string      `json:"name"` // short name without the leading dot
	Params     []ParamDecl `json:"params,omitempty"`
	Header     bool        `json:"header,omitempty"`     // declare params with {@param} instead of soydoc
	Autoescape string      `json:"autoescape,omitempty"` // "" true false contextual deprecated-contextual
	Private    bool        `json:"private,omitempty"`
	BothDecls  bool        `json:"bothdecls,omitempty"` // (invalid) params declared in soydoc and again in the header
	Body       []Cmd       `json:"body"`
}

type File struct {
	Name       string     `json:"name"`
	Namespace  string     `json:"namespace"`
	Autoescape string     `json:"autoescape,omitempty"`
	Aliases    []string   `json:"aliases,omitempty"` // namespaces aliased by their last segment
	CRLF       bool       `json:"crlf,omitempty"`    // the line ends between declarations (namespace, soydoc, templates) are CR LF
	Templates  []Template `json:"templates"`
}

type Program struct {
	Files   []File           `json:"files"`
	Globals map[string]Value `json:"globals,omitempty"`
}

// FindTemplate resolves a fully qualified name (first match in file order).
func (p *Program) FindTemplate(fq string) (*File, *Template) {
	for fi := range p.Files {
		f := &p.Files[fi]
		for ti := range f.Templates {
			if f.Namespace+"."+f.Templates[ti].Name == fq {
				return f, &f.Templates[ti]
			}
		}
	}
	return nil, nil
}

// Precedence of operators in the language definition (higher binds tighter).
//
//	8  unary - not
//	7  * / %
//	6  + -
//	5  < > <= >=
//	4  == !=
//	3  and
//	2  or
//	1  ?: and ? :   (right associative)
func Prec(op string) int {
	switch op {
	case "neg", "not":
		return 8
	case "*", "/", "%":
		return 7
	case "+", "-":
		return 6
	case "<", ">", "<=", ">=":
		return 5
	case "==", "!=":
		return 4
	case "and":
		return 3
	case "or":
		return 2
	case "?:", "tern":
		return 1
	}
	return 9 // primary
}

func IsBinary(op string) bool {
	switch op {
	case "*", "/", "%", "+", "-", "<", ">", "<=", ">=", "==", "!=", "and", "or", "?:":
		return true
	}
	return false
}

// Walk visits e and all sub-expressions.
func (e *Expr) Walk(f func(*Expr)) {
	if e == nil {
		return
	}
	f(e)
	for _, a := range e.Args {
		a.Walk(f)
	}
	for _, a := range e.Access {
		a.Expr.Walk(f)
	}
}

// CountOps is the number of operator nodes in the tree.
func (e *Expr) CountOps() int {
	n := 0
	e.Walk(func(x *Expr) {
		if IsBinary(x.Op) || x.Op == "neg" || x.Op == "not" || x.Op == "tern" {
			n++
		}
	})
	return n
}
