package ref

import (
	"strings"
	"unicode/utf8"
)

// EscapeHTML replaces the five special characters by character references.
// (&#34; and &#39; are the forms the repository documents; comparisons that
// must not depend on the spelling go through CanonRefs.)
func EscapeHTML(s string) string {
	var b strings.Builder
	for i := 0; i < len(s); i++ {
		switch s[i] {
		case '&':
			b.WriteString("&amp;")
		case '<':
			b.WriteString("&lt;")
		case '>':
			b.WriteString("&gt;")
		case '"':
			b.WriteString("&#34;")
		case '\'':
			b.WriteString("&#39;")
		default:
			b.WriteByte(s[i])
		}
	}
	return b.String()
}

// CanonRefs maps the alternative spellings of the quote references onto one.
func CanonRefs(s string) string {
	if !strings.Contains(s, "&") {
		return s
	}
	r := strings.NewReplacer("&quot;", "&#34;", "&apos;", "&#39;", "&#x27;", "&#39;", "&#x22;", "&#34;", "&#034;", "&#34;", "&#039;", "&#39;")
	s = r.Replace(s)
	// the same spellings after being escaped again (a captured block printed under autoescaping)
	for strings.Contains(s, "amp;quot;") {
		s = strings.ReplaceAll(s, "amp;quot;", "amp;#34;")
	}
	return s
}

func isWS(c byte) bool  { return c == ' ' || c == '\t' || c == '\r' || c == '\n' }
func isEOL(c byte) bool { return c == '\r' || c == '\n' }

// NormalizeText is the line-joining rule for one run of raw template text
// (the text between two tags, or between a tag and the template boundary):
//
//   - a whitespace run (space, tab, CR, LF) that contains a line break is
//     removed at either end of the run, and inside the run collapses to a
//     single space, or to nothing when the character before or after it is
//     '<' or '>';
//   - a whitespace run without a line break is preserved exactly;
//   - every other character is kept intact and in order.
// ExpandRaw replaces the marker runes U+F780..U+F7FF by the single bytes 0x80..0xFF. Template text that
// is not valid UTF-8 (a file in a legacy 8-bit encoding) is carried in this form, which survives JSON.
func ExpandRaw(s string) string {
	if !strings.ContainsRune(s, 0xF7) && !strings.Contains(s, "\xef\x9e") && !strings.Contains(s, "\xef\x9f") {
		return s
	}
	var b strings.Builder
	for _, r := range s {
		if r >= 0xF780 && r <= 0xF7FF {
			b.WriteByte(byte(r - 0xF700))
		} else {
			b.WriteRune(r)
		}
	}
	return b.String()
}

func NormalizeText(s string) string {
	s = ExpandRaw(s)
	var b strings.Builder
	i := 0
	for i < len(s) {
		if !isWS(s[i]) {
			b.WriteByte(s[i])
			i++
			continue
		}
		j := i
		hasEOL := false
		for j < len(s) && isWS(s[j]) {
			if isEOL(s[j]) {
				hasEOL = true
			}
			j++
		}
		switch {
		case !hasEOL:
			b.WriteString(s[i:j])
		case i == 0 || j == len(s):
			// removed at the ends
		default:
			before, after := s[i-1], s[j]
			if before != '<' && before != '>' && after != '<' && after != '>' {
				b.WriteByte(' ')
			}
		}
		i = j
	}
	return b.String()
}

// TruncateRunes cuts s to at most n runes.
func TruncateRunes(s string, n int) string {
	if n < 0 {
		n = 0
	}
	i := 0
	for k := 0; k < n && i < len(s); k++ {
		_, w := utf8.DecodeRuneInString(s[i:])
		i += w
	}
	return s[:i]
}
