//go:build !verif

package props

const hooksEnabled = false

func parseSteps() int64 { return 0 }
