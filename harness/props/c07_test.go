package props

import (
	"regexp"
	"encoding/json"
	"fmt"
	"strings"
	"testing"

	"github.com/robfig/soy"
	"github.com/robfig/soy/ast"
	"github.com/robfig/soy/soyhtml"
	"github.com/robfig/soy/template"
	"pgregory.net/rapid"

	"verif/harness/gen"
	"verif/harness/ref"
)

// C07: the compiler accepts exactly the bundles that satisfy the
// data-reference rules. For each generated valid bundle every single-rule
// violation is injected at every applicable site; the expected verdict of each
// mutant is recomputed by the reference checker (a mutation can stay valid by
// accident). Accepted bundles are rendered with every declared param supplied
// and the unbound-lookup hook must stay silent.

func cloneProg(p *ref.Program) *ref.Program {
	b, _ := json.Marshal(p)
	var q ref.Program
	json.Unmarshal(b, &q)
	return &q
}

// blocks calls f with a pointer to every command block of the program.
func blocks(p *ref.Program, f func(t *ref.Template, blk *[]ref.Cmd, top bool)) {
	var walk func(t *ref.Template, blk *[]ref.Cmd, top bool)
	walk = func(t *ref.Template, blk *[]ref.Cmd, top bool) {
		f(t, blk, top)
		for i := range *blk {
			c := &(*blk)[i]
			for bi := range c.Branches {
				walk(t, &c.Branches[bi].Body, false)
			}
			switch c.K {
			case "for", "letc", "log":
				walk(t, &c.Body, false)
			}
			if c.HasElse && c.K != "plural" {
				walk(t, &c.Else, false)
			}
			if c.Call != nil {
				for pi := range c.Call.Params {
					if c.Call.Params[pi].IsBlock {
						walk(t, &c.Call.Params[pi].Content, false)
					}
				}
			}
		}
	}
	for fi := range p.Files {
		for ti := range p.Files[fi].Templates {
			t := &p.Files[fi].Templates[ti]
			walk(t, &t.Body, true)
		}
	}
}

func insertAt(blk *[]ref.Cmd, i int, cs ...ref.Cmd) {
	out := make([]ref.Cmd, 0, len(*blk)+len(cs))
	out = append(out, (*blk)[:i]...)
	out = append(out, cs...)
	out = append(out, (*blk)[i:]...)
	*blk = out
}

func printVar(name string) ref.Cmd {
	return ref.Cmd{K: "print", Expr: call1("isNonnull", &ref.Expr{Op: "ref", Name: name})}
}
func call1(fn string, a *ref.Expr) *ref.Expr {
	return &ref.Expr{Op: "call", Name: fn, Args: []*ref.Expr{a}}
}

// recursionParam: the explicit param that makes a generated recursion end (the counter of a counted
// recursion, the next element of a list walk).
func recursionParam(cl *ref.Call, key string) bool {
	return key == "depthN" || key == "node" && strings.Contains(cl.Target, ".walk")
}

type mutant struct {
	what string
	prog *ref.Program
}

// mutants builds every single-rule violation of base at every applicable site.
func mutants(base *ref.Program, limit int) []mutant {
	var out []mutant
	add := func(what string, apply func(p *ref.Program) bool) {
		if len(out) >= limit {
			return
		}
		p := cloneProg(base)
		if apply(p) {
			out = append(out, mutant{what, p})
		}
	}
	// count sites first on the base, then address the k-th site in a clone
	type site struct{ blkIdx, cmdIdx int }
	var nBlocks int
	blocks(base, func(*ref.Template, *[]ref.Cmd, bool) { nBlocks++ })
	nthBlock := func(p *ref.Program, n int) (tm *ref.Template, blk *[]ref.Cmd, top bool) {
		k := 0
		blocks(p, func(t *ref.Template, b *[]ref.Cmd, tp bool) {
			if k == n {
				tm, blk, top = t, b, tp
			}
			k++
		})
		return
	}
	for bi := 0; bi < nBlocks; bi++ {
		bi := bi
		_, blk, _ := nthBlock(base, bi)
		for ci := range *blk {
			ci := ci
			c := (*blk)[ci]
			switch c.K {
			case "let", "letc":
				add(fmt.Sprintf("use of $%s before its definition", c.Var), func(p *ref.Program) bool {
					_, b, _ := nthBlock(p, bi)
					insertAt(b, ci, printVar(c.Var))
					return true
				})
				add(fmt.Sprintf("let $%s referring to itself in its own definition", c.Var), func(p *ref.Program) bool {
					_, b, _ := nthBlock(p, bi)
					cm := &(*b)[ci]
					if cm.K == "let" {
						cm.Expr = &ref.Expr{Op: "list", Args: []*ref.Expr{cm.Expr, {Op: "ref", Name: cm.Var}}}
					} else {
						cm.Body = append(cm.Body, printVar(cm.Var))
					}
					return true
				})
			case "for":
				add(fmt.Sprintf("loop variable $%s used after its loop", c.Var), func(p *ref.Program) bool {
					_, b, _ := nthBlock(p, bi)
					insertAt(b, ci+1, printVar(c.Var))
					return true
				})
				add(fmt.Sprintf("loop variable $%s used in ifempty", c.Var), func(p *ref.Program) bool {
					_, b, _ := nthBlock(p, bi)
					cm := &(*b)[ci]
					cm.HasElse = true
					cm.Else = append(cm.Else, printVar(cm.Var))
					return true
				})
				add(fmt.Sprintf("loop variable $%s used in its own list expression", c.Var), func(p *ref.Program) bool {
					_, b, _ := nthBlock(p, bi)
					cm := &(*b)[ci]
					cm.Expr = &ref.Expr{Op: "tern", Args: []*ref.Expr{call1("isNonnull", &ref.Expr{Op: "ref", Name: cm.Var}), cm.Expr, cm.Expr}}
					return true
				})
			case "msg":
				add("a let inside a msg, used later in the msg", func(p *ref.Program) bool {
					_, b, _ := nthBlock(p, bi)
					cm := &(*b)[ci]
					if len(cm.Body) > 0 && cm.Body[0].K == "plural" {
						return false
					}
					cm.Body = append([]ref.Cmd{{K: "let", Var: "zzInMsg", Expr: &ref.Expr{Op: "str", S: "w"}}, {K: "text", Text: "Hi "}}, append(cm.Body, ref.Cmd{K: "print", Expr: &ref.Expr{Op: "ref", Name: "zzInMsg"}})...)
					return true
				})
			case "call":
				add("call passes an undeclared param", func(p *ref.Program) bool {
					_, b, _ := nthBlock(p, bi)
					cl := (*b)[ci].Call
					cl.Params = append(cl.Params, ref.Param{Key: "zzBogus", Value: &ref.Expr{Op: "int", I: 1}})
					return true
				})
				add("call of an unknown template", func(p *ref.Program) bool {
					_, b, _ := nthBlock(p, bi)
					cl := (*b)[ci].Call
					cl.Target = cl.Target[:strings.LastIndex(cl.Target, ".")] + ".zzNoSuchTemplate"
					cl.Style = 1
					return true
				})
				for drop := 1; drop <= 3; drop++ {
					drop := drop
					add(fmt.Sprintf("call of a name that is the end of an existing template's name (%d segments dropped)", drop), func(p *ref.Program) bool {
						tm, b, _ := nthBlock(p, bi)
						cl := (*b)[ci].Call
						segs := strings.Split(cl.Target, ".")
						if len(segs)-drop < 2 {
							return false
						}
						tail := strings.Join(segs[drop:], ".")
						if _, known := p.FindTemplate(tail); known != nil {
							return false
						}
						// (not where an alias of the file would turn the shortened name into a full one again)
						for fi := range p.Files {
							for ti := range p.Files[fi].Templates {
								if &p.Files[fi].Templates[ti] != tm {
									continue
								}
								for _, a := range p.Files[fi].Aliases {
									if a[strings.LastIndex(a, ".")+1:] == segs[drop] {
										return false
									}
								}
							}
						}
						cl.Target, cl.Style = tail, 1
						if drop%2 == 0 {
							cl.Style = 3 // (the name="..." attribute)
						}
						return true
					})
				}
				for pi := range c.Call.Params {
					pi := pi
					add(fmt.Sprintf("param %s replaced by data=\"all\" plus a same-named let (locals are not forwarded)", c.Call.Params[pi].Key), func(p *ref.Program) bool {
						_, b, _ := nthBlock(p, bi)
						cl := (*b)[ci].Call
						if cl.Data != nil || recursionParam(cl, cl.Params[pi].Key) {
							return false // (the recursion counter must keep decreasing)
						}
						k := cl.Params[pi].Key
						cl.DataAll = true
						cl.Params = append(cl.Params[:pi:pi], cl.Params[pi+1:]...)
						insertAt(b, ci+1, printVar(k))
						insertAt(b, ci, ref.Cmd{K: "let", Var: k, Expr: &ref.Expr{Op: "int", I: 1}})
						return true
					})
					add(fmt.Sprintf("call drops param %s", c.Call.Params[pi].Key), func(p *ref.Program) bool {
						_, b, _ := nthBlock(p, bi)
						cl := (*b)[ci].Call
						if recursionParam(cl, cl.Params[pi].Key) && cl.DataAll {
							return false // (valid, but the recursion would never end)
						}
						cl.Params = append(cl.Params[:pi:pi], cl.Params[pi+1:]...)
						return true
					})
				}
			}
			// nested blocks that introduce a let: use it after the block ended
			nested := [][]ref.Cmd{c.Body, c.Else}
			for _, br := range c.Branches {
				nested = append(nested, br.Body)
			}
			for _, nb := range nested {
				for _, nc := range nb {
					if nc.K == "let" || nc.K == "letc" {
						v := nc.Var
						add(fmt.Sprintf("let $%s used after the block that defines it ended", v), func(p *ref.Program) bool {
							_, b, _ := nthBlock(p, bi)
							insertAt(b, ci+1, printVar(v))
							return true
						})
					}
				}
			}
		}
		add("unused let", func(p *ref.Program) bool {
			_, b, _ := nthBlock(p, bi)
			insertAt(b, len(*b)/2, ref.Cmd{K: "let", Var: "zzUnusedLet", Expr: &ref.Expr{Op: "int", I: 1}})
			return true
		})
		// a name that some other template of the bundle declares as a param, but not this one
		for k := 0; k < 2; k++ {
			k := k
			add("reference to a name only another template declares", func(p *ref.Program) bool {
				tm, b, _ := nthBlock(p, bi)
				own := map[string]bool{}
				for _, pd := range tm.Params {
					own[pd.Name] = true
				}
				var foreign []string
				for _, f := range p.Files {
					for _, t := range f.Templates {
						for _, pd := range t.Params {
							if !own[pd.Name] {
								own[pd.Name] = true
								foreign = append(foreign, pd.Name)
							}
						}
					}
				}
				if k >= len(foreign) {
					return false
				}
				// the first and the last foreign name (declared before / after this template, typically)
				name := foreign[0]
				if k == 1 {
					name = foreign[len(foreign)-1]
				}
				insertAt(b, len(*b), printVar(name))
				return true
			})
		}
		for k, fn := range []string{"index", "isFirst", "isLast"} {
			fn := fn
			if (bi+k)%3 != 0 {
				continue // (one of the three per block)
			}
			add(fn+"() of a param (no loop binds its position)", func(p *ref.Program) bool {
				tm, b, _ := nthBlock(p, bi)
				if len(tm.Params) == 0 {
					return false
				}
				name := tm.Params[len(tm.Params)-1].Name
				insertAt(b, len(*b), ref.Cmd{K: "print", Expr: call1("isNonnull", call1(fn, &ref.Expr{Op: "ref", Name: name}))})
				return true
			})
			add(fn+"() of a let", func(p *ref.Program) bool {
				_, b, _ := nthBlock(p, bi)
				insertAt(b, len(*b), ref.Cmd{K: "let", Var: "zzPos", Expr: &ref.Expr{Op: "int", I: 1}}, ref.Cmd{K: "print", Expr: call1("isNonnull", call1(fn, &ref.Expr{Op: "ref", Name: "zzPos"}))})
				return true
			})
			add(fn+"() of a loop variable where a let of that name hides it (and valid uses beside it)", func(p *ref.Program) bool {
				_, b, _ := nthBlock(p, bi)
				lv := &ref.Expr{Op: "ref", Name: "zzLoop"}
				insertAt(b, len(*b), ref.Cmd{K: "for", Style: 1, Var: "zzLoop", Expr: &ref.Expr{Op: "list", Args: []*ref.Expr{{Op: "int", I: 1}, {Op: "int", I: 2}}}, Body: []ref.Cmd{
					{K: "print", Expr: call1("isNonnull", call1(fn, lv))}, {K: "print", Expr: lv},
					{K: "if", Branches: []ref.Branch{{Cond: &ref.Expr{Op: "bool", B: true}, Body: []ref.Cmd{
						{K: "let", Var: "zzLoop", Expr: &ref.Expr{Op: "int", I: 7}}, {K: "print", Expr: lv}, {K: "print", Expr: call1("isNonnull", call1(fn, lv))}}}}}}})
				return true
			})
		}
		add("undeclared variable", func(p *ref.Program) bool {
			_, b, _ := nthBlock(p, bi)
			insertAt(b, len(*b), printVar("zzUndeclared"))
			return true
		})
		add("valid: a param/let is used, then shadowed by a let later in the same nested block", func(p *ref.Program) bool {
			tm, b, _ := nthBlock(p, bi)
			if len(tm.Params) == 0 {
				return false
			}
			name := tm.Params[0].Name
			insertAt(b, len(*b), ref.Cmd{K: "if", Branches: []ref.Branch{{Cond: &ref.Expr{Op: "bool", B: true}, Body: []ref.Cmd{
				printVar(name), {K: "let", Var: name, Expr: &ref.Expr{Op: "int", I: 1}}, printVar(name)}}}})
			return true
		})
	}
	for fi := range base.Files {
		for ti := range base.Files[fi].Templates {
			fi, ti := fi, ti
			add("unused optional param", func(p *ref.Program) bool {
				t := &p.Files[fi].Templates[ti]
				t.Params = append(t.Params, ref.ParamDecl{Name: "zzUnusedParam", Optional: true})
				return true
			})
			add("let named ij", func(p *ref.Program) bool {
				t := &p.Files[fi].Templates[ti]
				insertAt(&t.Body, 0, ref.Cmd{K: "let", Var: "ij", Expr: &ref.Expr{Op: "int", I: 1}}, printVar("ij"))
				return true
			})
			add("loop variable named ij", func(p *ref.Program) bool {
				t := &p.Files[fi].Templates[ti]
				insertAt(&t.Body, 0, ref.Cmd{K: "for", Style: (fi + ti) % 2, Var: "ij", Expr: &ref.Expr{Op: "list", Args: []*ref.Expr{{Op: "int", I: 1}}}, Body: []ref.Cmd{{K: "text", Text: "x"}}})
				return true
			})
			add("params declared in soydoc and header", func(p *ref.Program) bool {
				t := &p.Files[fi].Templates[ti]
				if len(t.Params) == 0 {
					return false
				}
				t.BothDecls = true
				return true
			})
		}
	}
	return out
}

// unboundLookups renders entry with every declared param supplied and returns the unbound names seen.
func unboundLookups(cb *compiled, pc gen.ProgCase) []string {
	optional := map[string]bool{}
	for _, f := range pc.Prog.Files {
		for _, t := range f.Templates {
			for _, pd := range t.Params {
				// a declared param can legitimately be absent at run time: optional ones, and
				// required ones of a callee reached through data="$map" (the rules do not look into the map)
				optional[pd.Name] = true
			}
		}
	}
	var seen []string
	soyhtml.VerifUnboundLookup = func(k string) {
		// an absent declared param is bound by its declaration
		if !optional[k] {
			seen = append(seen, k)
		}
	}
	defer func() { soyhtml.VerifUnboundLookup = nil }()
	cb.render(pc.Entry, pc.Data, pc.IJ, pc.HasIJ)
	return seen
}

var c07rec *recorder

func checkC07(c gen.ProgCase) Verdict {
	// every declared param of the entry template is supplied
	if _, t := c.Prog.FindTemplate(c.Entry); t != nil {
		for _, pd := range t.Params {
			if v, okv := c.Data[pd.Name]; !okv || v.K == ref.Null {
				if c.Data == nil {
					c.Data = map[string]ref.Value{}
				}
				c.Data[pd.Name] = ref.S("supplied")
			}
		}
	}
	sameNames := hashCase(c)%4 == 0
	judge := func(what string, p *ref.Program, isBase bool) error {
		names, srcs := gen.Sources(p)
		if sameNames {
			// the name of a source is "only used for error messages": several sources may carry one
			for i := range names {
				names[i] = "views.soy"
			}
		}
		viol := ref.Check(p)
		cb, err, pn := compileBundle(names, srcs, p.Globals)
		if pn != nil {
			return fmt.Errorf("%s: compiler panicked: %v\n%s", what, pn, showSources(names, srcs))
		}
		if len(viol) == 0 && err != nil {
			return fmt.Errorf("%s: bundle satisfies every rule but the compiler rejects it: %v\n%s", what, err, showSources(names, srcs))
		}
		if len(viol) > 0 && err == nil {
			return fmt.Errorf("%s: bundle violates a rule (%s) but the compiler accepts it\n%s", what, viol[0], showSources(names, srcs))
		}
		if err == nil {
			pc := c
			pc.Prog = *p
			if un := unboundLookups(cb, pc); len(un) > 0 {
				return fmt.Errorf("%s: accepted bundle looked up names that nothing binds: %v\n%s data=%v", what, un, showSources(names, srcs), pc.Data)
			}
		}
		if c07rec != nil {
			if len(viol) > 0 {
				c07rec.add("mutants_invalid_and_rejected", 1)
			} else if !isBase {
				c07rec.add("mutants_still_valid_and_accepted", 1)
			}
		}
		return nil
	}
	// mutants of the source text: places where an undeclared name can hide from the checker
	textMutants := func() error {
		names, srcs := gen.Sources(&c.Prog)
		type tm struct {
			what string
			re   *regexp.Regexp
			repl string
		}
		for _, m := range []tm{
			{"a second expression behind the data expression of a call", regexp.MustCompile(` data="([^"]*[^"l])"`), ` data="$1 $$zzNope"`},
			{"a second expression behind the value of a param", regexp.MustCompile(` value="([^"]+)"`), ` value="$1 $$zzNope"`},
			{"the data attribute given twice (the first with an undeclared name)", regexp.MustCompile(` data="([^"]*[^"l])"`), ` data="$$zzNope" data="$1"`},
			{"a map literal with one key twice (the first value an undeclared name)", regexp.MustCompile(`\['(\w+)': `), `['$1': $$zzNope, '$1': `},
		} {
			for i := range srcs {
				loc := m.re.FindStringIndex(srcs[i])
				if loc == nil {
					continue
				}
				mutated := append([]string{}, srcs...)
				mutated[i] = srcs[i][:loc[0]] + m.re.ReplaceAllString(srcs[i][loc[0]:loc[1]], m.repl) + srcs[i][loc[1]:]
				_, cerr, pn := compileBundle(names, mutated, c.Prog.Globals)
				if pn != nil {
					return fmt.Errorf("text mutant [%s]: compiler panicked: %v\n%s", m.what, pn, showSources(names, mutated))
				}
				if cerr == nil {
					return fmt.Errorf("text mutant [%s]: the bundle refers to $zzNope, which nothing declares, but the compiler accepts it\n%s", m.what, showSources(names, mutated))
				}
				if c07rec != nil {
					c07rec.add("text_mutants_rejected", 1)
				}
				break
			}
		}
		return nil
	}
	// mutants made by a parse pass of the application (Bundle.AddParsePass): the rules hold for the trees
	// that the compilation hands out, whoever shaped them
	passMutants := func() error {
		names, srcs := gen.Sources(&c.Prog)
		compileWith := func(pass func(template.Registry) error) (err error, pn interface{}) {
			b := soy.NewBundle()
			for i := range names {
				b.AddTemplateString(names[i], srcs[i])
			}
			if len(c.Prog.Globals) > 0 {
				b.AddGlobalsMap(toDataMap(c.Prog.Globals))
			}
			b.AddParsePass(pass)
			pn = catch(func() { _, err = b.Compile() })
			return
		}
		if err, pn := compileWith(func(template.Registry) error { return nil }); err != nil || pn != nil {
			return fmt.Errorf("parse pass [changes nothing]: the compiler rejects a bundle that satisfies every rule: %v %v\n%s", err, pn, showSources(names, srcs))
		}
		err, pn := compileWith(func(reg template.Registry) error {
			if len(reg.Templates) == 0 {
				return nil
			}
			tn := reg.Templates[len(reg.Templates)/2].Node
			tn.Body.Nodes = append(tn.Body.Nodes, &ast.PrintNode{Pos: tn.Pos, Arg: &ast.DataRefNode{Pos: tn.Pos, Key: "zzNope"}})
			return nil
		})
		if pn != nil {
			return fmt.Errorf("parse pass [adds a print of $zzNope]: compiler panicked: %v\n%s", pn, showSources(names, srcs))
		}
		if err == nil {
			return fmt.Errorf("parse pass [adds a print of $zzNope to a template]: the compiled bundle refers to a name that nothing declares, but the compiler accepts it\n%s", showSources(names, srcs))
		}
		if c07rec != nil {
			c07rec.add("pass_mutants_rejected", 1)
		}
		return nil
	}
	var err error
	if !finishes(4*watchdogLimit(), func() {
		if err = judge("generated valid bundle", &c.Prog, true); err != nil {
			return
		}
		if err = textMutants(); err != nil {
			return
		}
		if err = passMutants(); err != nil {
			return
		}
		for _, m := range mutants(&c.Prog, scale(150, 600)) {
			if err = judge("mutant ["+m.what+"]", m.prog, false); err != nil {
				return
			}
		}
	}) {
		hangExit("C07", c, "compile/render of a bundle or one of its mutants")
	}
	if err != nil {
		return bad(true, "%v", err)
	}
	st := statsOf(&c.Prog)
	return ok(true, fmt.Sprintf("calls:%s", bucket(st.calls)), fmt.Sprintf("lets:%s", bucket(st.lets)))
}

func genC07(t *rapid.T) gen.ProgCase {
	g := &gen.G{T: t, P: gen.Profile{HTMLChars: true}}
	return gen.GenProgram(g, gen.ProgOpts{MaxTemplates: 4, MaxDepth: 3, MaxCmds: 3, ExprDepth: 1, PosWeight: 2, ScopeWeight: 10, CallWeight: 12, MinTemplates: 2, NoMsg: false})
}

func TestC07(t *testing.T) {
	recompileCheck = true
	defer func() { recompileCheck = false }()
	c07rec = newRecorder("C07x")
	defer c07rec.flush()
	runPropCrashy(t, "C07", genC07, checkC07)
}
