package props

import (
	"fmt"
	"hash"
	"hash/fnv"
	"math"
	"reflect"
	"sort"
)

// deepDigest computes a structural digest of an arbitrary Go value: it follows
// pointers and interfaces, reads unexported fields, is insensitive to map
// iteration order and terminates on cycles. Two digests are equal iff the
// reachable structures are equal (up to hash collisions).
func deepDigest(v interface{}) uint64 {
	d := &digester{h: fnv.New64a(), seen: map[uintptr]int{}}
	d.walk(reflect.ValueOf(v), 0)
	return d.h.Sum64()
}

type digester struct {
	h    hash.Hash64
	seen map[uintptr]int
}

func (d *digester) w(format string, a ...interface{}) { fmt.Fprintf(d.h, format, a...) }

func (d *digester) walk(v reflect.Value, depth int) {
	if !v.IsValid() {
		d.w("<invalid>")
		return
	}
	if depth > 10000 {
		d.w("<deep>")
		return
	}
	switch v.Kind() {
	case reflect.Bool:
		d.w("b%v;", v.Bool())
	case reflect.Int, reflect.Int8, reflect.Int16, reflect.Int32, reflect.Int64:
		d.w("i%d;", v.Int())
	case reflect.Uint, reflect.Uint8, reflect.Uint16, reflect.Uint32, reflect.Uint64, reflect.Uintptr:
		d.w("u%d;", v.Uint())
	case reflect.Float32, reflect.Float64:
		d.w("f%x;", math.Float64bits(v.Float()))
	case reflect.String:
		d.w("s%d:%s;", v.Len(), v.String())
	case reflect.Ptr:
		if v.IsNil() {
			d.w("nilptr;")
			return
		}
		// cycles are cut on the current path only; shared sub-structures are walked
		// again, so the digest does not depend on the order in which map entries are visited
		if _, onPath := d.seen[v.Pointer()]; onPath {
			d.w("cycle;")
			return
		}
		d.seen[v.Pointer()] = 1
		d.w("ptr(")
		d.walk(v.Elem(), depth+1)
		d.w(")")
		delete(d.seen, v.Pointer())
	case reflect.Interface:
		if v.IsNil() {
			d.w("niliface;")
			return
		}
		d.w("iface[%s](", v.Elem().Type().String())
		d.walk(v.Elem(), depth+1)
		d.w(")")
	case reflect.Slice:
		if v.IsNil() {
			d.w("nilslice;")
			return
		}
		fallthrough
	case reflect.Array:
		d.w("seq%d(", v.Len())
		if v.Type().Elem().Kind() == reflect.Uint8 && v.Kind() == reflect.Slice {
			d.w("%x", v.Bytes())
		} else {
			for i := 0; i < v.Len(); i++ {
				d.walk(v.Index(i), depth+1)
			}
		}
		d.w(")")
	case reflect.Map:
		if v.IsNil() {
			d.w("nilmap;")
			return
		}
		type kv struct{ k, v uint64 }
		var pairs []kv
		it := v.MapRange()
		for it.Next() {
			dk := &digester{h: fnv.New64a(), seen: d.seen}
			dk.walk(it.Key(), depth+1)
			dv := &digester{h: fnv.New64a(), seen: d.seen}
			dv.walk(it.Value(), depth+1)
			pairs = append(pairs, kv{dk.h.Sum64(), dv.h.Sum64()})
		}
		sort.Slice(pairs, func(i, j int) bool {
			if pairs[i].k != pairs[j].k {
				return pairs[i].k < pairs[j].k
			}
			return pairs[i].v < pairs[j].v
		})
		d.w("map%d(", len(pairs))
		for _, p := range pairs {
			d.w("%x=%x,", p.k, p.v)
		}
		d.w(")")
	case reflect.Struct:
		d.w("struct[%s](", v.Type().String())
		for i := 0; i < v.NumField(); i++ {
			d.walk(v.Field(i), depth+1)
		}
		d.w(")")
	case reflect.Func:
		if v.IsNil() {
			d.w("nilfunc;")
		} else {
			d.w("func%x;", v.Pointer())
		}
	case reflect.Chan, reflect.UnsafePointer:
		d.w("opaque%x;", v.Pointer())
	default:
		d.w("?%s;", v.Kind())
	}
}
