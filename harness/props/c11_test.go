package props

import (
	"bytes"
	"fmt"
	"hash/fnv"
	"net/textproto"
	"os"
	"os/exec"
	"path/filepath"
	"strings"
	"testing"

	"github.com/robfig/gettext/po"
	"github.com/robfig/soy/soyjs"
	"github.com/robfig/soy/soymsg/pomsg"
	"pgregory.net/rapid"

	"verif/harness/gen"
	"verif/harness/ref"
)

// C11: extracted messages round-trip. The real extractor binary (built from
// /repo by the driver) runs on generated files; the catalogue is filled with an
// identity / reversing / rotating / partial translation, loaded through
// pomsg.Dir, and the render (Go and generated JavaScript) is compared with a
// prediction built from the model: translated text segments in place and each
// placeholder's own value where the translation put it.

type C11Case struct {
	Groups [][]ref.Cmd `json:"groups"` // each: lets followed by one msg
	// Carriers (parallel to Groups): 0 the message stands in the block itself; 1 inside a {let} content
	// block that is printed; 2 inside a {param} content block of a call that prints it; 3 both
	Carriers []int `json:"carriers,omitempty"`
	// Region: 0 the catalogue is asked for under its own name; 1 it is stored as <locale>-<REGION>.po next
	// to a decoy <locale>.po with other translations, and asked for as <locale>_<REGION> (the closest
	// catalogue wins); 2 only <locale>.po exists and <locale>_<REGION> falls back to it
	Region    int    `json:"region,omitempty"`
	Catalogue string `json:"catalogue"`
	Locale    string `json:"locale"`
	// Nest, when set, makes this a case of the nested tier (c11_nested.go)
	Nest *C11Nest `json:"nest,omitempty"`
}

type c11Part struct {
	ph    bool
	name  string
	text  string
	value string
}

func pluralForm(locale string, n int64) int {
	switch locale {
	case "fr": // the catalogue's own header (Plural-Forms: n != 1) decides, not the built-in French rule (n > 1)
		if n != 1 {
			return 1
		}
		return 0
	case "ja":
		return 0
	case "cs":
		switch {
		case n == 1:
			return 0
		case n >= 2 && n <= 4:
			return 1
		}
		return 2
	}
	if n == 1 {
		return 0
	}
	return 1
}

func nForms(locale string) int { return map[string]int{"en": 2, "ja": 1, "cs": 3, "fr": 2}[locale] }

// partsOf lists the parts of a message body with the names from the reference naming rule and the
// value each placeholder renders (computed by the reference interpreter from the group's lets).
func partsOf(lets []ref.Cmd, body []ref.Cmd, names map[string]string) ([]c11Part, error) {
	var out []c11Part
	addText := func(s string) {
		if s == "" {
			return
		}
		if len(out) > 0 && !out[len(out)-1].ph {
			out[len(out)-1].text += s
			return
		}
		out = append(out, c11Part{text: s})
	}
	valueOf := func(c ref.Cmd) (string, error) {
		p := &ref.Program{Globals: gen.MsgGlobals, Files: []ref.File{{Name: "v.soy", Namespace: "v", Templates: []ref.Template{{Name: "t", Body: append(append([]ref.Cmd{}, lets...), c, lets2uses(lets))}}}}}
		r := ref.Render(p, "v.t", nil, nil, false)
		if r.Status != ref.OK {
			return "", fmt.Errorf("placeholder does not render: %s", r.Msg)
		}
		return r.Out, nil
	}
	for _, c := range ref.MergeText(body) {
		switch c.K {
		case "text":
			s := ref.NormalizeText(c.Text)
			last := 0
			for _, loc := range tagRe.FindAllStringIndex(s, -1) {
				addText(s[last:loc[0]])
				tag := s[loc[0]:loc[1]]
				out = append(out, c11Part{ph: true, name: names["tag:"+tag], value: tag})
				last = loc[1]
			}
			addText(s[last:])
		case "sp":
			addText(" ")
		case "lb":
			addText("{")
		case "rb":
			addText("}")
		case "print":
			key := "print:" + gen.PrintExpr(c.Expr) + gen.PrintDirectives(c.Directives)
			v, err := valueOf(c)
			if err != nil {
				return nil, err
			}
			out = append(out, c11Part{ph: true, name: names[key], value: v})
		default:
			return nil, fmt.Errorf("unexpected command %s in a message", c.K)
		}
	}
	return out, nil
}

// lets2uses is an empty text command (the reference interpreter does not need lets to be used).
func lets2uses([]ref.Cmd) ref.Cmd { return ref.Cmd{K: "nil"} }

func msgidOf(parts []c11Part) string {
	var b strings.Builder
	for _, p := range parts {
		if p.ph {
			b.WriteString("{" + p.name + "}")
		} else {
			b.WriteString(p.text)
		}
	}
	return b.String()
}

// translate permutes the parts and marks the text segments; returns the msgstr and what it must render to.
func translate(parts []c11Part, catalogue, tag string) (msgstr, rendered string) {
	ps := append([]c11Part{}, parts...)
	mark := true
	switch catalogue {
	case "identity":
		mark = false
	case "reverse", "partial":
		for i, j := 0, len(ps)-1; i < j; i, j = i+1, j-1 {
			ps[i], ps[j] = ps[j], ps[i]
		}
	case "rotate":
		if len(ps) > 1 {
			ps = append(ps[1:], ps[0])
		}
	}
	var a, b strings.Builder
	if tag != "" {
		a.WriteString(tag)
		b.WriteString(tag)
	}
	for _, p := range ps {
		switch {
		case p.ph:
			a.WriteString("{" + p.name + "}")
			b.WriteString(p.value)
		case mark:
			a.WriteString("‹" + p.text + "›")
			b.WriteString("‹" + p.text + "›")
		default:
			a.WriteString(p.text)
			b.WriteString(p.text)
		}
	}
	return a.String(), b.String()
}

func strHash(s string) uint32 { h := fnv.New32a(); h.Write([]byte(s)); return h.Sum32() }

var c11rec *recorder

func checkC11(c C11Case) Verdict {
	if c.Nest != nil {
		return checkC11Nested(c.Nest)
	}
	xgettext := os.Getenv("VERIF_XGETTEXT")
	if xgettext == "" {
		xgettext = filepath.Join(verifRoot(), ".build", "xgettext-soy")
	}
	if _, err := os.Stat(xgettext); err != nil {
		return excluded("infra: extractor binary not built")
	}
	// the bundle: every group in its own block
	var body []ref.Cmd
	raw := []ref.Directive{{Name: "noAutoescape"}}
	for gi, g := range c.Groups {
		// every let is referenced once more (in a branch that never runs), so none is unused
		gb := append([]ref.Cmd{}, g...)
		if gi < len(c.Carriers) && c.Carriers[gi] > 0 {
			msg := gb[len(gb)-1]
			inner := []ref.Cmd{msg}
			if c.Carriers[gi]&2 != 0 {
				inner = []ref.Cmd{{K: "call", Call: &ref.Call{Target: "m.echo", Params: []ref.Param{{Key: "v", IsBlock: true, Content: inner}}}}}
			}
			if c.Carriers[gi]&1 != 0 {
				zc := fmt.Sprintf("zc%d", gi)
				inner = []ref.Cmd{{K: "letc", Var: zc, Body: inner}, {K: "print", Expr: varE(zc), Directives: raw}}
			}
			gb = append(gb[:len(gb)-1:len(gb)-1], inner...)
		}
		for _, l := range g {
			if l.K == "let" {
				gb = append(gb, ref.Cmd{K: "if", Branches: []ref.Branch{{Cond: &ref.Expr{Op: "bool", B: false}, Body: []ref.Cmd{printVar(l.Var)}}}})
			}
		}
		body = append(body, ref.Cmd{K: "if", Branches: []ref.Branch{{Cond: &ref.Expr{Op: "bool", B: true}, Body: gb}}}, txt(" / "))
	}
	prog := &ref.Program{Globals: gen.MsgGlobals, Files: []ref.File{{Name: "m.soy", Namespace: "m", Templates: []ref.Template{{Name: "t", Body: body},
		{Name: "echo", Params: []ref.ParamDecl{{Name: "v"}}, Body: []ref.Cmd{{K: "print", Expr: varE("v"), Directives: raw}}}}}}}
	names, srcs := gen.Sources(prog)
	src := showSources(names, srcs)
	source := ref.Render(prog, "m.t", nil, nil, false)
	if source.Status != ref.OK {
		return excluded("harness: the generated bundle does not render in the reference")
	}

	dir, err := os.MkdirTemp(outDir(), "c11-")
	if err != nil {
		return excluded("infra: " + err.Error())
	}
	defer os.RemoveAll(dir)
	os.WriteFile(filepath.Join(dir, "m.soy"), []byte(srcs[0]), 0o644)

	// expected catalogue entries and renderings, from the model
	type entry struct {
		msgid, plural string
		str           []string
		render        string // what the message renders to under the catalogue
		present       bool
	}
	representable := true
	var entries []entry
	var expected strings.Builder
	distinctPh := 0
	for _, g := range c.Groups {
		msg := theMsg(g)
		lets := g[:len(g)-1]
		order, rerr := refPlaceholders(msg.Body)
		if rerr != nil {
			return excluded("harness: " + rerr.Error())
		}
		nm := refNames(order)
		if len(nm) > distinctPh {
			distinctPh = len(nm)
		}
		// the source rendering of this group (fallback)
		gp := &ref.Program{Globals: gen.MsgGlobals, Files: []ref.File{{Name: "g.soy", Namespace: "g", Templates: []ref.Template{{Name: "t", Body: g}}}}}
		gsrc := ref.Render(gp, "g.t", nil, nil, false).Out
		if len(msg.Body) == 0 {
			// an empty message has nothing to translate: no entry is expected for it (the empty msgid
			// is the header of a PO file) and it renders as it stands
			expected.WriteString(gsrc + " / ")
			continue
		}
		var e entry
		if len(msg.Body) > 0 && msg.Body[0].K == "plural" {
			pl := msg.Body[0]
			if len(pl.Branches) != 1 || pl.Branches[0].Int != 1 {
				representable = false
				continue
			}
			one, err1 := partsOf(lets, pl.Branches[0].Body, nm)
			other, err2 := partsOf(lets, pl.Else, nm)
			if err1 != nil || err2 != nil {
				return excluded("harness: plural body outside the model")
			}
			e.msgid, e.plural = msgidOf(one), msgidOf(other)
			if e.msgid == "" || e.plural == "" {
				// (an empty msgid is the header of a PO file, and an entry with an empty msgid_plural is
				// written - and read back - as one that has no plural: PO cannot hold this message)
				representable = false
				continue
			}
			nv, st, _ := ref.EvalExpr(pl.Expr, ref.NewEnv(letEnv(lets), nil, false, gen.MsgGlobals))
			if st != ref.OK || nv.K != ref.Int {
				return excluded("harness: plural value")
			}
			form := pluralForm(c.Locale, nv.I)
			for i := 0; i < nForms(c.Locale); i++ {
				ps := other
				if i == 0 && nForms(c.Locale) > 1 {
					ps = one
				}
				tag := ""
				if c.Catalogue != "identity" {
					tag = fmt.Sprintf("‹form%d›", i)
				}
				s, r := translate(ps, c.Catalogue, tag)
				e.str = append(e.str, s)
				if i == form {
					e.render = r
				}
			}
			if c.Catalogue == "identity" && c.Locale != "en" {
				// with other plural rules the identity catalogue does not reproduce the source selection
				e.render = e.render + ""
			}
		} else {
			ps, err := partsOf(lets, msg.Body, nm)
			if err != nil {
				return excluded("harness: " + err.Error())
			}
			e.msgid = msgidOf(ps)
			s, r := translate(ps, c.Catalogue, "")
			e.str, e.render = []string{s}, r
		}
		e.present = !(c.Catalogue == "partial" && strHash(e.msgid+msg.Meaning)%2 == 0)
		entries = append(entries, e)
		if e.present {
			expected.WriteString(e.render)
		} else {
			expected.WriteString(gsrc)
		}
		expected.WriteString(" / ")
	}

	// 1. extraction with the real binary
	cmd := exec.Command(xgettext, dir)
	var stdout, stderr bytes.Buffer
	cmd.Stdout, cmd.Stderr = &stdout, &stderr
	runErr := cmd.Run()
	if !representable {
		if runErr == nil {
			return bad(true, "the bundle has a plural PO cannot represent, yet the extractor exited 0 and printed:\n%s\n%s", trunc(stdout.String(), 1500), src)
		}
		if strings.TrimSpace(stderr.String()) == "" {
			return bad(true, "the extractor failed without a message\n%s", src)
		}
		return ok(true, "unrepresentable-plural-rejected")
	}
	if runErr != nil {
		return bad(true, "the extractor failed on a valid bundle: %v %s\n%s", runErr, stderr.String(), src)
	}
	pot, err := po.Parse(bytes.NewReader(stdout.Bytes()))
	if err != nil {
		return bad(true, "the extractor's output is not a valid PO file: %v\n%s", err, stdout.String())
	}
	if len(pot.Messages) != len(entries) {
		return bad(true, "the extractor wrote %d entries for %d messages\n%s\n%s", len(pot.Messages), len(entries), stdout.String(), src)
	}
	for i, m := range pot.Messages {
		if m.Id != entries[i].msgid || m.IdPlural != entries[i].plural {
			return bad(true, "entry %d: msgid %q / msgid_plural %q, expected %q / %q\n%s", i, m.Id, m.IdPlural, entries[i].msgid, entries[i].plural, src)
		}
	}
	// 2. fill in the translations
	var file po.File
	for i, m := range pot.Messages {
		if !entries[i].present {
			if strHash(entries[i].msgid)%3 == 0 {
				// left in the catalogue as the extractor wrote it: an entry without a translation
				// (gettext's "not translated yet") is as good as absent
				file.Messages = append(file.Messages, m)
			}
			continue
		}
		m.Str = entries[i].str
		file.Messages = append(file.Messages, m)
	}
	if c.Locale == "fr" {
		file.Header = textproto.MIMEHeader{}
		file.Header.Set("Language", "fr")
		file.Header.Set("Plural-Forms", "nplurals=2; plural=(n != 1);")
		file.Header.Set("Content-Type", "text/plain; charset=UTF-8")
	}
	var pobuf bytes.Buffer
	file.WriteTo(&pobuf)
	region := map[string]string{"en": "GB", "ja": "JP", "cs": "CZ", "fr": "FR"}[c.Locale]
	ask := c.Locale
	switch c.Region {
	case 1:
		os.WriteFile(filepath.Join(dir, c.Locale+"-"+region+".po"), pobuf.Bytes(), 0o644)
		decoy := po.File{Header: file.Header}
		for _, m := range file.Messages {
			d := m
			d.Str = make([]string, len(m.Str))
			for i := range d.Str {
				d.Str[i] = "DECOY"
			}
			decoy.Messages = append(decoy.Messages, d)
		}
		var dbuf bytes.Buffer
		decoy.WriteTo(&dbuf)
		os.WriteFile(filepath.Join(dir, c.Locale+".po"), dbuf.Bytes(), 0o644)
		ask = c.Locale + "_" + region
	case 2:
		os.WriteFile(filepath.Join(dir, c.Locale+".po"), pobuf.Bytes(), 0o644)
		ask = c.Locale + "_" + region
	default:
		os.WriteFile(filepath.Join(dir, c.Locale+".po"), pobuf.Bytes(), 0o644)
	}
	provider, err := pomsg.Dir(dir)
	if err != nil {
		return bad(true, "the filled-in catalogue does not load: %v\n%s", err, pobuf.String())
	}
	bundle := provider.Bundle(ask)
	if bundle == nil {
		return bad(true, "no bundle for locale %s", c.Locale)
	}
	// 3. render with the catalogue
	cb, cerr, pn := compileBundle(names, srcs, prog.Globals)
	if cerr != nil || pn != nil {
		return bad(true, "bundle does not compile: %v %v\n%s", cerr, pn, src)
	}
	plain := cb.render("m.t", nil, nil, false)
	var buf bytes.Buffer
	var rerr error
	if p := catch(func() {
		// (the setters of a Renderer may be called in any order)
		ij := toDataMap(map[string]ref.Value{"zz": ref.S("ij")})
		switch strHash(src) % 5 {
		case 3, 4:
			// a Renderer that the application keeps: it has rendered with another catalogue (marked
			// identity translations) or with none before it is given this one
			rd := cb.tofu.NewRenderer("m.t")
			var discard bytes.Buffer
			if strHash(src)%5 == 3 {
				rd.WithMessages(identityBundle(cb))
			}
			rd.Execute(&discard, nil)
			rerr = rd.WithMessages(bundle).Execute(&buf, nil)
		case 0:
			rerr = cb.tofu.NewRenderer("m.t").WithMessages(bundle).Execute(&buf, nil)
		case 1:
			rerr = cb.tofu.NewRenderer("m.t").WithMessages(bundle).Inject(ij).Execute(&buf, nil)
		default:
			rerr = cb.tofu.NewRenderer("m.t").Inject(ij).WithMessages(bundle).Execute(&buf, nil)
		}
	}); p != nil {
		return bad(true, "render with the catalogue panicked: %v\n%s\n%s", p, pobuf.String(), src)
	}
	if rerr != nil {
		return bad(true, "render with the catalogue failed: %v\n%s\n%s", trunc(rerr.Error(), 400), pobuf.String(), src)
	}
	got := buf.String()
	if c.Catalogue == "identity" && c.Locale == "en" && got != plain.out {
		return bad(true, "the identity translation does not render what rendering without a catalogue does\n with    %q\n without %q\n%s\n%s", got, plain.out, pobuf.String(), src)
	}
	if got != expected.String() {
		return bad(true, "render with the %s catalogue (%s)\n got  %q\n want %q\n%s\n%s", c.Catalogue, c.Locale, got, expected.String(), pobuf.String(), src)
	}
	// 4. the JavaScript backend agrees
	files, jerr := jsSources(cb, soyjs.Options{Messages: bundle}, false)
	if jerr != nil {
		return bad(true, "%v\n%s", jerr, src)
	}
	rule := map[string]string{"en": "one-other", "ja": "only-other", "cs": "one-few-other", "fr": "one-other"}[c.Locale]
	resp, err := theNode.do(jsRequest{Files: files, Plural: rule, Calls: []jsCall{{Name: "m.t", Data: map[string]interface{}{}}}})
	if err != nil {
		return excluded("infra: " + err.Error())
	}
	if resp.Load[0] != nil {
		return bad(true, "generated JavaScript with the catalogue does not load: %s\n%s", *resp.Load[0], files[0].Src)
	}
	if r := resp.Results[0]; !r.OK || r.Out != got {
		return bad(true, "JavaScript with the catalogue gives %q (error %q), Go gives %q\n%s\n%s", r.Out, r.Error, got, pobuf.String(), files[0].Src)
	}
	if c11rec != nil {
		c11rec.add("messages_extracted", len(entries))
	}
	return ok(distinctPh >= 2 && c.Catalogue != "identity", "catalogue:"+c.Catalogue, "locale:"+c.Locale)
}

// letEnv evaluates a group's lets into a variable map.
func letEnv(lets []ref.Cmd) map[string]ref.Value {
	env := map[string]ref.Value{}
	for _, l := range lets {
		if l.K == "let" {
			v, st, _ := ref.EvalExpr(l.Expr, ref.NewEnv(env, nil, false, nil))
			if st == ref.OK {
				env[l.Var] = v
			}
		}
	}
	return env
}

func genC11(t *rapid.T) C11Case {
	if rapid.IntRange(0, 5).Draw(t, "nested") == 3 {
		part := rapid.IntRange(0, c11CallPart)
		n := &C11Nest{Outer: rapid.SliceOfN(part, 1, 6).Draw(t, "outer")}
		if rapid.IntRange(0, 3).Draw(t, "withCall") > 0 {
			n.Outer = append(n.Outer, c11CallPart)
			if rapid.Bool().Draw(t, "callFirst") {
				n.Outer[0], n.Outer[len(n.Outer)-1] = n.Outer[len(n.Outer)-1], n.Outer[0]
			}
		}
		for i, k := 0, rapid.IntRange(1, 3).Draw(t, "inners"); i < k; i++ {
			n.Inners = append(n.Inners, rapid.SliceOfN(part, 1, 5).Draw(t, "inner"))
		}
		return C11Case{Catalogue: "identity", Locale: "en", Nest: n}
	}
	g := &gen.G{T: t}
	c := C11Case{Catalogue: rapid.SampledFrom([]string{"identity", "reverse", "rotate", "partial"}).Draw(t, "catalogue"), Locale: rapid.SampledFrom([]string{"en", "ja", "cs", "fr"}).Draw(t, "locale")}
	for i, n := 0, rapid.IntRange(1, 3).Draw(t, "ngroups"); i < n; i++ {
		grp := g.MsgStress(true)
		msg := &grp[len(grp)-1]
		if len(msg.Body) > 0 && msg.Body[0].K == "plural" && rapid.IntRange(0, 9).Draw(t, "poPlural") < 8 {
			pl := &msg.Body[0]
			if len(pl.Branches) == 0 {
				pl.Branches = []ref.Branch{{Int: 1, Body: []ref.Cmd{txt("one item")}}}
			}
			pl.Branches = pl.Branches[:1]
			pl.Branches[0].Int = 1
			// the plural subject's value
			nv := int64(rapid.SampledFrom([]int{0, 1, 2, 3, 5, 11, 21}).Draw(t, "n"))
			for li := range grp {
				if grp[li].K == "let" && grp[li].Var == "num" {
					grp[li].Expr = &ref.Expr{Op: "int", I: nv}
				}
				if grp[li].K == "let" && grp[li].Var == "cnt" {
					grp[li].Expr = &ref.Expr{Op: "map", Keys: []string{"num"}, Args: []*ref.Expr{{Op: "int", I: nv}}}
				}
			}
		}
		c.Groups = append(c.Groups, grp)
		c.Carriers = append(c.Carriers, rapid.SampledFrom([]int{0, 0, 1, 2, 3}).Draw(t, "carrier"))
	}
	c.Region = rapid.SampledFrom([]int{0, 0, 1, 2}).Draw(t, "region")
	return c
}

func TestC11(t *testing.T) {
	fileRoute = true
	defer func() { fileRoute = false }()
	c11rec = newRecorder("C11x")
	defer c11rec.flush()
	defer theNode.stop()
	runProp(t, "C11", genC11, checkC11)
}
