package props

import (
	"fmt"
	"github.com/robfig/soy/parse"
	"os"
	"runtime"
	"strings"
	"testing"
	"time"

	"github.com/robfig/soy"
	"pgregory.net/rapid"
)

// C18: no parse leaves a goroutine behind. A case is a sequence of parses
// (files, standalone expressions, globals files); afterwards no frame of the
// scanner loop may remain in the goroutine dump once a bounded settle time has
// passed (a finishing scanner is gone in microseconds, a leaked one is blocked
// on its channel forever).

type C18Case struct {
	Inputs []C05Case `json:"inputs"`
	// Bundles: groups of files compiled together with Bundle.Compile (which parses each of them)
	Bundles [][]string `json:"bundles,omitempty"`
	// Burst: (replay of) the burst tier
	Burst bool `json:"burst,omitempty"`
	// Limit: (replay of) the nesting limit tier
	Limit bool `json:"limit,omitempty"`
	// LongTail: (replay of) the long tail tier
	LongTail bool `json:"long_tail,omitempty"`
}

func scannerGoroutines() int {
	buf := make([]byte, 1<<20)
	for {
		n := runtime.Stack(buf, true)
		if n < len(buf) {
			buf = buf[:n]
			break
		}
		buf = make([]byte, 2*len(buf))
	}
	return strings.Count(string(buf), "parse.(*lexer).run")
}

// settle waits (bounded) for scanner goroutines to exit and returns how many remain.
func settle() int {
	n := 0
	for i := 0; i < 400; i++ {
		runtime.Gosched()
		if n = scannerGoroutines(); n == 0 {
			return 0
		}
		time.Sleep(5 * time.Millisecond)
	}
	return n
}

func settleTo(base int) int {
	n := 0
	for i := 0; i < 400; i++ {
		runtime.Gosched()
		if n = scannerGoroutines(); n <= base {
			return n
		}
		time.Sleep(5 * time.Millisecond)
	}
	return n
}

func genC18(t *rapid.T) C18Case {
	n := rapid.IntRange(1, scale(30, 80)).Draw(t, "n")
	var c C18Case
	for i := 0; i < n; i++ {
		if rapid.IntRange(0, 9).Draw(t, "trailing") < 3 {
			// a complete expression followed by more tokens
			a := rapid.SampledFrom([]string{"1", "$x", "'s'", "f(1)", "[1, 2]", "$a.b", "true", "1 + 2"}).Draw(t, "head")
			b := rapid.SampledFrom([]string{" 2 3", " $y", " )", " ]", " ,", " 'x' 'y' 'z'", " }", " |", " 1 2 3 4 5 6 7 8 9", " :", " @", " \x00",
				// many unread tokens (more than any buffer between scanner and parser would hold)
				strings.Repeat(" 2", 70), strings.Repeat(" $x", 300), strings.Repeat(" ,", 130), strings.Repeat(" 'a'", 1000)}).Draw(t, "tail")
			kind := rapid.SampledFrom([]string{"expr", "globals"}).Draw(t, "kind")
			in := a + b
			if kind == "globals" {
				in = "NAME = " + in + "\nOTHER = 2\n"
			}
			c.Inputs = append(c.Inputs, mkC05(kind, "trailing-tokens", in))
			continue
		}
		if rapid.IntRange(0, 9).Draw(t, "longGlobals") == 0 {
			// a globals file with a line that is rejected and many lines after it (whatever reads ahead of
			// the parser is left with lines nobody takes)
			var b strings.Builder
			for j, k := 0, rapid.IntRange(0, 40).Draw(t, "goodLines"); j < k; j++ {
				fmt.Fprintf(&b, "G%d = %d\n", j, j)
			}
			b.WriteString(rapid.SampledFrom([]string{"BAD", "X = ", "X = 1 2", "X = $v", "G0 = 1", "= 3", "X = 'open", "X = [1, "}).Draw(t, "badLine") + "\n")
			for j, k := 0, rapid.SampledFrom([]int{0, 1, 5, 31, 32, 33, 34, 40, 64, 65, 100, 129, 300, 1100}).Draw(t, "moreLines"); j < k; j++ {
				if j%7 == 3 {
					b.WriteString("\n// comment\n")
				}
				fmt.Fprintf(&b, "H%d = 'v%d'\n", j, j)
			}
			c.Inputs = append(c.Inputs, mkC05("globals", "trailing-tokens", b.String()))
			continue
		}
		c.Inputs = append(c.Inputs, genC05(t))
	}
	// bundles of several files, some of them broken (not the last one, not only the last one)
	for i, nb := 0, rapid.IntRange(0, 4).Draw(t, "nbundles"); i < nb; i++ {
		var files []string
		for j, nf := 0, rapid.IntRange(2, 4).Draw(t, "nfiles"); j < nf; j++ {
			switch rapid.IntRange(0, 4).Draw(t, "file") {
			case 0:
				files = append(files, wrapLevel(1, rapid.SampledFrom(tagDictAll).Draw(t, "frag"), rapid.Bool().Draw(t, "closed")))
			case 1:
				files = append(files, "{namespace dup}\n/** */\n{template .same}x{/template}\n")
			case 2:
				files = append(files, "/** no namespace */\n{template .t}x{/template}\n")
			default:
				files = append(files, fmt.Sprintf("{namespace ok%d}\n/** */\n{template .t}fine{/template}\n", j))
			}
		}
		c.Bundles = append(c.Bundles, files)
	}
	return c
}

func checkC18(c C18Case) Verdict {
	if c.Burst {
		if err := c18Burst(); err != nil {
			return bad(true, "%v", err)
		}
		return ok(true, "burst")
	}
	if c.LongTail {
		if err := c18LongTail(); err != nil {
			return bad(true, "%v", err)
		}
		return ok(true, "long-tail")
	}
	if c.Limit {
		if err := c18Limit(); err != nil {
			return bad(true, "%v", err)
		}
		return ok(true, "limit")
	}
	// goroutines leaked by an earlier (failing, being shrunk) case cannot be killed:
	// judge this case relative to what is alive now
	base := scannerGoroutines()
	if base != 0 {
		base = settle()
	}
	before := runtime.NumGoroutine()
	nt := false
	for _, in := range c.Inputs {
		in := in
		if !finishes(watchdogLimit(), func() {
			catch(func() {
				if in.Kind == "globals" {
					soy.ParseGlobals(strings.NewReader(string(in.Input)))
				} else {
					doParse(in)
				}
			})
		}) {
			// a parse that never returns is C05's matter; its goroutine cannot be killed and every later
			// parse of this process may block too, so nothing more can be judged here
			fmt.Printf("INFRA: a parse did not return within the watchdog limit (property C05 decides that): %s\n", in.Show)
			os.Exit(2)
		}
		if in.From == "trailing-tokens" || strings.Contains(string(in.Input), "=\"") {
			nt = true
		}
	}
	for _, files := range c.Bundles {
		files := files
		if !finishes(watchdogLimit(), func() {
			catch(func() {
				b := soy.NewBundle()
				for i, f := range files {
					b.AddTemplateString(fmt.Sprintf("f%d.soy", i), f)
				}
				b.Compile()
			})
		}) {
			fmt.Printf("INFRA: compiling a bundle did not return within the watchdog limit (C05/C06 decide that)\n")
			os.Exit(2)
		}
		nt = true
	}
	if left := settleTo(base); left > base {
		left -= base
		return bad(true, "%d scanner goroutine(s) still alive after %d parses returned; inputs: %s", left, len(c.Inputs), showInputs(c.Inputs))
	}
	if after := runtime.NumGoroutine(); after > before+2 {
		return bad(true, "goroutine count grew from %d to %d over %d parses and %d bundle compilations", before, after, len(c.Inputs), len(c.Bundles))
	}
	return ok(nt, fmt.Sprintf("parses:%s", bucket(len(c.Inputs))))
}

func showInputs(ins []C05Case) string {
	var s []string
	for i, in := range ins {
		if i >= 6 {
			s = append(s, "…")
			break
		}
		s = append(s, in.Kind+":"+in.Show)
	}
	return strings.Join(s, " ; ")
}

// The burst tier: thousands of parses in a plain loop on one processor, no pause between them. A scanner
// that is still alive when its parse returns gets no turn before the next parse starts its own: they
// pile up, each holding its input. The peak number of goroutines has to stay small.
func c18Burst() error {
	defer runtime.GOMAXPROCS(runtime.GOMAXPROCS(1))
	inputs := []string{"a", "{$a}", "{namespace a}\n/** */\n{template .x}hello {$y}{/template}\n", "a{$a}", "{namespace a}\n{template .x}{if $a}b{/if}{/template}"}
	settle()
	base, peak := runtime.NumGoroutine(), 0
	for i := 0; i < 4000; i++ {
		parse.SoyFile("burst.soy", inputs[i%len(inputs)])
		if n := runtime.NumGoroutine(); n > peak {
			peak = n
		}
	}
	if peak-base > 200 {
		return fmt.Errorf("4000 successful parses in a row on one processor: up to %d goroutines were alive at once (%d before the loop) - the scanner of a finished parse is still there when the next parse begins", peak, base)
	}
	return nil
}

// The nesting limit tier: the parser refuses input that is nested deeper than a limit of its own. Where
// exactly it gives up decides which of its parts are active at that moment (the scanner of the file, the
// one of a quoted attribute value, a parser of an expression inside a tag). For each kind of block the
// depth at which the refusal begins is searched, and every tail is parsed at the depths around it.
func c18Limit() error {
	type wrap struct{ open, close string }
	wraps := []wrap{{"{if $x}", "{/if}"}, {"{foreach $a in $b}", "{/foreach}"}, {"{log}", "{/log}"}, {"{call .t}{param k}", "{/param}{/call}"}, {"{let $v}", "{/let}"}}
	tails := []string{"text", "{$x.y}", "{call .u data=\"$x.y\"/}", "{call .u}{param k: $x.y /}{/call}", "{call .u}{param key=\"k\" value=\"$x.y\"/}{/call}", "{css $x.y, suffix}", "{css base}",
		"{let $w: [1, [2, [$x.y]]] /}", "{msg desc=\"d\"}a {$x.y} b{/msg}", "{print $x.y |truncate: (1 + (2 * 3))}", "{call .u data=\"[1, [2, [3, [4]]]]\"/}", "{if $x.y}a{elseif ((($z)))}b{/if}", "{'unterminated}", "{call .u data=\"$x.\"/}"}
	build := func(w wrap, d int, tail string) string {
		return "{namespace a}\n/** */\n{template .x}\n" + strings.Repeat(w.open, d) + tail + strings.Repeat(w.close, d) + "\n{/template}\n"
	}
	for _, w := range wraps {
		// what the parser says about d levels of this block around plain text: nothing (accepted), or the
		// text of its refusal. The depths at which that changes are the ones where another part of the
		// parser is the first to notice the nesting.
		const top = 40000
		memo := map[int]string{}
		outcome := func(d int) string {
			if o, seen := memo[d]; seen {
				return o
			}
			var err error
			catch(func() { _, err = parse.SoyFile("limit.soy", build(w, d, "text")) })
			o := ""
			if err != nil {
				o = err.Error()
			}
			memo[d] = o
			return o
		}
		var edges []int
		var search func(lo, hi int)
		search = func(lo, hi int) {
			if outcome(lo) == outcome(hi) || len(edges) >= 4 {
				return
			}
			if hi-lo == 1 {
				edges = append(edges, hi)
				return
			}
			mid := (lo + hi) / 2
			search(lo, mid)
			search(mid, hi)
		}
		search(1, top)
		for _, hi := range edges {
			for _, tail := range tails {
				for d := hi - scale(2, 4); d <= hi+scale(1, 3); d++ {
					if d < 1 {
						continue
					}
					base := settle()
					src := build(w, d, tail)
					for rep := 0; rep < scale(1, 2); rep++ {
						if !finishes(4*watchdogLimit(), func() { catch(func() { parse.SoyFile("limit.soy", src) }) }) {
							fmt.Printf("INFRA: a parse did not return within the watchdog limit (property C05 decides that): %d levels of %s around %s\n", d, w.open, tail)
							os.Exit(2)
						}
					}
					if left := settleTo(base); left > base {
						return fmt.Errorf("%d scanner goroutine(s) still alive after parses returned of a template with %s nested %d levels deep (what the parser says about this block changes at %d levels) around %s", left-base, w.open, d, hi, tail)
					}
				}
			}
		}
	}
	// the same for standalone expressions (parse.Expr, the route of ParseGlobals): constructs that nest
	// and flat chains, whose tree is as deep as they are long; behind the expression, nothing or more tokens
	type chain struct{ unit, mid, close string }
	for _, ch := range []chain{{"1+", "1", ""}, {"(", "1", ")"}, {"[", "1", "]"}, {"- ", "1", ""}, {"1?:", "1", ""}, {"$a[", "1", "]"}, {"f(", "1", ")"}} {
		const top = 40000
		memo := map[int]string{}
		outcome := func(d int) string {
			if o, seen := memo[d]; seen {
				return o
			}
			var err error
			catch(func() { _, err = parse.Expr(strings.Repeat(ch.unit, d) + ch.mid + strings.Repeat(ch.close, d)) })
			o := ""
			if err != nil {
				o = err.Error()
			}
			memo[d] = o
			return o
		}
		var edges []int
		var search func(lo, hi int)
		search = func(lo, hi int) {
			if outcome(lo) == outcome(hi) || len(edges) >= 4 {
				return
			}
			if hi-lo == 1 {
				edges = append(edges, hi)
				return
			}
			mid := (lo + hi) / 2
			search(lo, mid)
			search(mid, hi)
		}
		search(1, top)
		for _, hi := range edges {
			for _, tail := range []string{"", " 2", " )", " 'unterminated", " $b.c", ","} {
				for d := hi - scale(2, 4); d <= hi+scale(1, 3); d++ {
					if d < 1 {
						continue
					}
					base := settle()
					src := strings.Repeat(ch.unit, d) + ch.mid + strings.Repeat(ch.close, d) + tail
					if !finishes(4*watchdogLimit(), func() { catch(func() { parse.Expr(src) }) }) {
						fmt.Printf("INFRA: a parse did not return within the watchdog limit (property C05 decides that): %d times %q as an expression\n", d, ch.unit)
						os.Exit(2)
					}
					if left := settleTo(base); left > base {
						return fmt.Errorf("%d scanner goroutine(s) still alive after parse.Expr returned: %q %d times, then %q%s, followed by %q (what the parser says about this expression changes at %d repetitions)", left-base, ch.unit, d, ch.mid, strings.Repeat(ch.close, min(d, 3)), tail, hi)
					}
				}
			}
		}
	}
	return nil
}

// The long tail tier: the parser stops reading early (trailing tokens after a complete expression, a syntax
// error at the top of a file) while the scanner still has tens of megabytes in front of it - seconds of
// work. When the parse returns, the scanner has exited all the same.
func c18LongTail() error {
	n := scale(12, 40) * 1000000
	for _, in := range []struct {
		what string
		run  func()
	}{
		{fmt.Sprintf("parse.Expr of \"1\" followed by %d more numbers", n), func() { parse.Expr("1" + strings.Repeat(" 1", n)) }},
		{fmt.Sprintf("parse.SoyFile of a namespace tag without a name followed by %d print commands", n/3), func() {
			parse.SoyFile("tail.soy", "{namespace}\n"+strings.Repeat("{$a}", n/3))
		}},
		{fmt.Sprintf("parse.Expr of \"$a b\" followed by a string literal of %d bytes and more", 2*n), func() { parse.Expr("$a b '" + strings.Repeat("xy", n) + "' c") }},
	} {
		base := settle()
		if !finishes(40*watchdogLimit(), func() { catch(in.run) }) {
			fmt.Printf("INFRA: %s did not return (property C05 decides that)\n", in.what)
			os.Exit(2)
		}
		if left := settleTo(base); left > base {
			return fmt.Errorf("%d scanner goroutine(s) still alive after the parse returned: %s", left-base, in.what)
		}
		runtime.GC()
	}
	return nil
}

func TestC18(t *testing.T) {
	if (shard() == "2" || os.Getenv("VERIF_NSHARDS") == "1") && os.Getenv("VERIF_REPLAY") == "" && os.Getenv("VERIF_CORPUS_ONLY") == "" {
		if err := c18LongTail(); err != nil {
			c := C18Case{LongTail: true}
			writeFail("C18", c, err)
			t.Fatalf("long tail tier: %v", err)
		}
	}
	if shard() == "1" && os.Getenv("VERIF_REPLAY") == "" && os.Getenv("VERIF_CORPUS_ONLY") == "" {
		if err := c18Limit(); err != nil {
			c := C18Case{Limit: true}
			writeFail("C18", c, err)
			t.Fatalf("nesting limit tier: %v", err)
		}
	}
	if shard() == "0" && os.Getenv("VERIF_REPLAY") == "" && os.Getenv("VERIF_CORPUS_ONLY") == "" {
		if err := c18Burst(); err != nil {
			c := C18Case{Burst: true}
			writeFail("C18", c, err)
			t.Fatalf("burst tier: %v", err)
		}
	}
	runPropCrashy(t, "C18", genC18, checkC18)
}
