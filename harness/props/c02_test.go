package props

import (
	"testing"

	"pgregory.net/rapid"

	"verif/harness/gen"
	"verif/harness/ref"
)

// C02: commands, variable scoping and calls behave as the language defines.

func genC02(t *rapid.T) gen.ProgCase {
	g := &gen.G{T: t, P: gen.Profile{Unicode: true, HTMLChars: true, Directives: true}}
	return gen.GenProgram(g, gen.ProgOpts{MaxTemplates: scale(5, 7), MaxDepth: scale(3, 5), MaxCmds: 4, ExprDepth: 2, PosWeight: 3, Valueless: true, ScopeWeight: 12, CallWeight: 12, MinTemplates: 2})
}

func checkC02(c gen.ProgCase) Verdict {
	v, want, st := checkProgram("C02", c)
	if v.Err != nil || v.Excluded != "" {
		return v
	}
	v.NonTrivial = want.Calls > 0 || want.Shadows > 0 || want.BlockExits > 0
	v.Classes = []string{"status:" + want.Status.String()}
	add := func(cond bool, name string) {
		if cond {
			v.Classes = append(v.Classes, name)
		}
	}
	add(want.Calls > 0, "executed-call")
	add(want.Shadows > 0, "executed-shadowing")
	add(want.BlockExits > 0, "block-exit-after-let")
	add(st.dataAll > 0, "data=all")
	add(st.dataExpr > 0, "data=$expr")
	add(st.blockParams > 0, "content-param")
	add(st.loops > 0, "loop")
	add(st.switches > 0, "switch")
	add(st.msgs > 0, "msg")
	add(len(c.Prog.Files) > 1, "multi-file")
	_ = ref.OK
	return v
}

func TestC02(t *testing.T) {
	fileRoute = true
	defer func() { fileRoute = false }()
	runPropCrashy(t, "C02", genC02, checkC02)
}
