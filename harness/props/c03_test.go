package props

import (
	"unicode/utf8"
	"bytes"
	"encoding/json"
	"fmt"
	"os"
	"path/filepath"
	"strings"
	"testing"

	"github.com/robfig/soy/ast"
	"github.com/robfig/soy/template"
	"pgregory.net/rapid"

	"verif/harness/gen"
	"verif/harness/ref"
)

// C03: autoescaping. A value is printed inside sentinels through a carrier
// (direct print, let/param content, msg placeholder, calls) under a
// combination of namespace/template autoescape attributes and a directive
// chain. Two oracles: (1) the frame between the sentinels satisfies the
// escaping invariant (no raw special character, every '&' starts a character
// reference, decoding gives the value's text) - independent of any model of
// the escaper; (2) the whole output equals the reference interpreter's.

type C03Case struct {
	Value      ref.Value       `json:"value"`
	Carrier    string          `json:"carrier"`
	// Source: where the printing side gets the value from: 0 the template's data, 1 a compile-time global
	// (AddGlobalsMap), 2 a string literal in the template, 3 a {let} of that literal (strings only)
	Source int `json:"source,omitempty"`
	NsMode     string          `json:"ns_mode"`
	TmplMode   string          `json:"tmpl_mode"`
	CalleeNs   string          `json:"callee_ns_mode"`
	CalleeMode string          `json:"callee_mode"`
	Chain      []ref.Directive `json:"chain,omitempty"`
	Header     bool            `json:"header,omitempty"`
	// Split: a namespace may be spread over several files, each with its own autoescape default.
	// 1/2: another file of the caller's namespace with the opposite default is added before / after
	// its file; 3/4: the same for the callee's namespace.
	Split int `json:"split,omitempty"`
	// Bundle: render through a message bundle with (marked) identity translations.
	// Decoy (carrier msg): the message first prints the same expression with a cancelling directive.
	Bundle bool `json:"bundle,omitempty"`
	Decoy  int  `json:"decoy,omitempty"` // 0 none, 1 |noAutoescape, 2 |id
	// Harden: the source files declare their namespaces with a wrong mode (the opposite one); the mode
	// the case means is set on the parsed namespace tags by a parse pass of the application
	// (Bundle.AddParsePass) - the effective mode is the one the compiled bundle carries
	Harden bool `json:"harden,omitempty"`
}

const (
	s1 = "[[S1:"
	s2 = ":S2]]"
)

var c03Carriers = []string{"param-bare", "letc-bare", "print", "letc", "param-content", "call-value", "call-all", "call-deep", "msg", "letc-reprint", "data-map", "after-call", "loop-around-call", "after-log"}
var c03Modes = []string{"", "true", "false", "contextual", "deprecated-contextual"}

func intE(i int) *ref.Expr    { return &ref.Expr{Op: "int", I: int64(i)} }
func varE(n string) *ref.Expr { return &ref.Expr{Op: "ref", Name: n} }
func txt(s string) ref.Cmd    { return ref.Cmd{K: "text", Text: s} }

// buildC03 constructs the bundle for a case and says which template prints the value.
func buildC03(c C03Case) (pc gen.ProgCase, printerNs, printerTmpl string) {
	// xe: the value as the caller's side writes it
	xe := varE("x")
	src := c.Source
	if c.Value.K != ref.String || c.Carrier == "call-all" || src >= 2 && !utf8.ValidString(c.Value.S) {
		src = 0 // (a source file holds text; a global given through the API holds any bytes)
	}
	switch src {
	case 1:
		xe = &ref.Expr{Op: "global", Name: "app.VAL"}
	case 2:
		xe = &ref.Expr{Op: "str", S: c.Value.S}
	case 3:
		xe = varE("lv")
	}
	under := ref.Cmd{K: "print", Expr: xe, Directives: c.Chain}
	show := ref.Template{Name: "show", Params: []ref.ParamDecl{{Name: "x"}}, Autoescape: c.CalleeMode, Header: c.Header,
		Body: []ref.Cmd{txt(s1), {K: "print", Expr: varE("x"), Directives: c.Chain}, txt(s2)}}
	if c.Carrier == "after-call" || c.Carrier == "loop-around-call" {
		// the frame under test is the caller's; the callee prints without sentinels
		show.Body = []ref.Cmd{txt("(callee:"), {K: "print", Expr: varE("x")}, txt(")")}
	}
	mid := ref.Template{Name: "mid", Params: []ref.ParamDecl{{Name: "x"}}, Autoescape: c.TmplMode,
		Body: []ref.Cmd{txt("mid("), {K: "call", Call: &ref.Call{Target: "b.lib.show", Style: 1, Params: []ref.Param{{Key: "x", Value: varE("x")}}}}, txt(")")}}
	echo := ref.Template{Name: "echo", Params: []ref.ParamDecl{{Name: "v"}}, Autoescape: c.CalleeMode,
		Body: []ref.Cmd{txt("echo:"), {K: "print", Expr: varE("v"), Directives: []ref.Directive{{Name: "noAutoescape"}}}}}
	frame := ref.Template{Name: "frame", Params: []ref.ParamDecl{{Name: "v"}}, Autoescape: c.CalleeMode,
		Body: []ref.Cmd{txt(s1), {K: "print", Expr: varE("v"), Directives: []ref.Directive{{Name: "noAutoescape"}}}, txt(s2)}}
	main := ref.Template{Name: "main", Params: []ref.ParamDecl{{Name: "x"}}, Autoescape: c.TmplMode, Header: c.Header}
	framed := []ref.Cmd{txt(s1), under, txt(s2)}
	printerNs, printerTmpl = c.NsMode, c.TmplMode
	switch c.Carrier {
	case "print":
		main.Body = append([]ref.Cmd{txt("<p>")}, append(framed, txt("</p>"))...)
	case "letc":
		main.Body = []ref.Cmd{{K: "letc", Var: "c", Body: framed}, txt("<i>"), {K: "print", Expr: varE("c"), Directives: []ref.Directive{{Name: "noAutoescape"}}}}
	case "letc-reprint":
		// the captured text is printed again under autoescaping: it is data at that point
		main.Body = []ref.Cmd{{K: "letc", Var: "c", Body: []ref.Cmd{under}}, txt(s1), {K: "print", Expr: varE("c")}, txt(s2)}
	case "param-content":
		main.Body = []ref.Cmd{{K: "call", Call: &ref.Call{Target: "b.lib.echo", Style: 1, Params: []ref.Param{{Key: "v", IsBlock: true, Content: framed}}}}}
	case "param-bare":
		// the content block is the print command and nothing else; the callee frames and passes it on
		main.Body = []ref.Cmd{{K: "call", Call: &ref.Call{Target: "b.lib.frame", Style: 1, Params: []ref.Param{{Key: "v", IsBlock: true, Content: []ref.Cmd{under}}}}}}
	case "letc-bare":
		main.Body = []ref.Cmd{{K: "letc", Var: "c", Body: []ref.Cmd{under}}, txt(s1), {K: "print", Expr: varE("c"), Directives: []ref.Directive{{Name: "noAutoescape"}}}, txt(s2)}
	case "call-value":
		main.Body = []ref.Cmd{txt("a"), {K: "call", Call: &ref.Call{Target: "b.lib.show", Style: 1, Params: []ref.Param{{Key: "x", Value: xe}}}}}
		printerNs, printerTmpl = c.CalleeNs, c.CalleeMode
	case "call-all":
		main.Body = []ref.Cmd{{K: "call", Call: &ref.Call{Target: "b.lib.show", Style: 1, DataAll: true}}}
		printerNs, printerTmpl = c.CalleeNs, c.CalleeMode
	case "data-map":
		main.Body = []ref.Cmd{{K: "call", Call: &ref.Call{Target: "b.lib.show", Style: 1, Data: &ref.Expr{Op: "map", Keys: []string{"x"}, Args: []*ref.Expr{xe}}}}}
		printerNs, printerTmpl = c.CalleeNs, c.CalleeMode
	case "call-deep":
		main.Body = []ref.Cmd{{K: "call", Call: &ref.Call{Target: "a.mid", Style: 0, Params: []ref.Param{{Key: "x", Value: xe}}}}}
		printerNs, printerTmpl = c.CalleeNs, c.CalleeMode
	case "after-call":
		// the caller prints after a call to a template with its own mode has returned
		main.Body = append([]ref.Cmd{txt("<p>"), {K: "call", Call: &ref.Call{Target: "b.lib.show", Style: 1, Params: []ref.Param{{Key: "x", Value: &ref.Expr{Op: "str", S: "k"}}}}}, txt("|")}, framed...)
	case "after-log":
		// the print follows a {log} block that was executed (no logger is installed: the default)
		main.Body = append([]ref.Cmd{txt("<p>"), {K: "log", Body: []ref.Cmd{txt("seen "), under}}, txt("|")}, framed...)
	case "loop-around-call":
		main.Body = []ref.Cmd{{K: "for", Var: "it", Expr: &ref.Expr{Op: "call", Name: "range", Args: []*ref.Expr{{Op: "int", I: 2}}}, Body: append(append([]ref.Cmd{}, framed...),
			ref.Cmd{K: "call", Call: &ref.Call{Target: "b.lib.show", Style: 1, Params: []ref.Param{{Key: "x", Value: &ref.Expr{Op: "str", S: "k"}}}}})}}
	case "msg":
		body := []ref.Cmd{txt("Hi " + s1), under, txt(s2 + " there")}
		if c.Decoy == 1 || c.Decoy == 2 {
			dd := []ref.Directive{{Name: []string{"noAutoescape", "id"}[c.Decoy-1]}}
			body = append([]ref.Cmd{txt("raw: "), {K: "print", Expr: xe, Directives: dd}, txt(" ")}, body...)
		}
		main.Body = []ref.Cmd{{K: "msg", Desc: "m", Body: body}}
		if c.Decoy >= 3 {
			// a twin in front: the same text and the same placeholder name - one id, one catalogue entry -
			// over a print of the same expression with a cancelling directive
			dd := []ref.Directive{{Name: []string{"noAutoescape", "id"}[c.Decoy-3]}}
			twin := []ref.Cmd{txt("Hi " + s1), {K: "print", Expr: xe, Directives: dd}, txt(s2 + " there")}
			main.Body = []ref.Cmd{{K: "msg", Desc: "the twin", Body: twin}, txt("|"), main.Body[0]}
		}
	default:
		panic("carrier " + c.Carrier)
	}
	var globals map[string]ref.Value
	switch src {
	case 1:
		main.Params, globals = nil, map[string]ref.Value{"app.VAL": c.Value}
	case 2:
		main.Params = nil
	case 3:
		main.Params = nil
		main.Body = append([]ref.Cmd{{K: "let", Var: "lv", Expr: &ref.Expr{Op: "str", S: c.Value.S}}}, main.Body...)
	}
	p := ref.Program{Globals: globals, Files: []ref.File{
		{Name: "a.soy", Namespace: "a", Autoescape: c.NsMode, Templates: []ref.Template{main, mid}},
		{Name: "b.soy", Namespace: "b.lib", Autoescape: c.CalleeNs, Templates: []ref.Template{show, echo, frame}},
	}}
	if c.Split > 0 {
		extra := ref.File{Name: "c.soy", Namespace: "a", Autoescape: opposite(c.NsMode), Templates: []ref.Template{{Name: "other", Body: []ref.Cmd{txt("other")}}}}
		if c.Split >= 3 {
			extra.Namespace, extra.Autoescape = "b.lib", opposite(c.CalleeNs)
		}
		if c.Split%2 == 1 {
			p.Files = append([]ref.File{extra}, p.Files...)
		} else {
			p.Files = append(p.Files, extra)
		}
	}
	return gen.ProgCase{Prog: p, Entry: "a.main", Data: map[string]ref.Value{"x": c.Value}}, printerNs, printerTmpl
}

func modeOn(ns, tmpl string) bool {
	m := tmpl
	if m == "" {
		m = ns
	}
	return m != "false"
}

var knownRefs = []string{"&amp;", "&lt;", "&gt;", "&quot;", "&#34;", "&#39;", "&apos;", "&#x27;", "&#x22;"}

// checkEscaped verifies the escaping invariant on frame for text want.
func checkEscaped(frame, want string) error {
	for i := 0; i < len(frame); i++ {
		switch frame[i] {
		case '<', '>', '"', '\'':
			return fmt.Errorf("raw %q at offset %d of the escaped text %q", frame[i], i, frame)
		case '&':
			okRef := false
			for _, r := range knownRefs {
				if strings.HasPrefix(frame[i:], r) {
					okRef = true
				}
			}
			if !okRef {
				return fmt.Errorf("'&' at offset %d does not start a character reference in %q", i, frame)
			}
		}
	}
	dec := strings.NewReplacer("&amp;", "&", "&lt;", "<", "&gt;", ">", "&quot;", "\"", "&#34;", "\"", "&#39;", "'", "&apos;", "'", "&#x27;", "'", "&#x22;", "\"").Replace(frame)
	if dec != want {
		return fmt.Errorf("escaped text %q decodes to %q, not to the value %q", frame, dec, want)
	}
	return nil
}

func opposite(m string) string {
	if m == "false" {
		return ""
	}
	return "false"
}

// c03Pass, when set, is a parse pass that compileBundle adds to the bundle.
var c03Pass func(template.Registry) error

func hasSpecial(s string) bool { return strings.ContainsAny(s, "&<>\"'") }

func checkC03(c C03Case) Verdict {
	pc, pns, ptm := buildC03(c)
	names, srcs := gen.Sources(&pc.Prog)
	want := ref.Render(&pc.Prog, pc.Entry, pc.Data, nil, false)
	if want.Status == ref.Valueless {
		return excluded("case does not render (valueless)")
	}
	if c.Bundle {
		if b, _ := json.Marshal(c.Value); strings.ContainsAny(string(b), "«»") {
			c.Bundle = false
		}
	}
	var (
		cb  *compiled
		err error
		pn  interface{}
		rr  renderResult
	)
	if c.Harden {
		wrong := pc.Prog
		wrong.Files = append([]ref.File{}, wrong.Files...)
		meant := map[string]ast.AutoescapeType{}
		for i := range wrong.Files {
			switch wrong.Files[i].Autoescape {
			case "false":
				meant[wrong.Files[i].Name] = ast.AutoescapeOff
			case "", "true":
				meant[wrong.Files[i].Name] = ast.AutoescapeOn
			default:
				meant[wrong.Files[i].Name] = ast.AutoescapeContextual
			}
			wrong.Files[i].Autoescape = opposite(wrong.Files[i].Autoescape)
		}
		names, srcs = gen.Sources(&wrong)
		c03Pass = func(reg template.Registry) error {
			for _, t := range reg.Templates {
				fn := reg.Filename(t.Node.Name)
				var idx int
				if _, known := meant[fn]; !known {
					// (loaded from files: the i-th source is <dir>/0i.soy)
					if _, serr := fmt.Sscanf(filepath.Base(fn), "%02d.soy", &idx); serr != nil || idx >= len(names) {
						return fmt.Errorf("harness: unknown file %q", fn)
					}
					fn = wrong.Files[idx].Name
				}
				t.Namespace.Autoescape = meant[fn]
			}
			return nil
		}
		defer func() { c03Pass = nil }()
	}
	if !finishes(watchdogLimit(), func() {
		cb, err, pn = compileBundle(names, srcs, pc.Prog.Globals)
		if err == nil && pn == nil && !c.Bundle {
			rr = cb.render(pc.Entry, pc.Data, nil, false)
		}
		if err == nil && pn == nil && c.Bundle {
			// through a bundle of identity translations; the marks around translated text are removed again
			var buf bytes.Buffer
			rr.panicked = catch(func() {
				rr.err = cb.tofu.NewRenderer(pc.Entry).WithMessages(identityBundle(cb)).Execute(&buf, toDataMap(pc.Data))
			})
			rr.out = strings.NewReplacer("«", "", "»", "").Replace(buf.String())
		}
	}) {
		hangExit("C03", c, "compile+render")
	}
	if err != nil || pn != nil {
		return bad(true, "compile failed: %v %v\n%s", err, pn, showSources(names, srcs))
	}
	if rr.err != nil || rr.panicked != nil {
		return bad(true, "render failed: %v %v\n%s", rr.err, rr.panicked, showSources(names, srcs))
	}
	// oracle 2: exact output, where the reference model is exact
	if want.Status == ref.OK && ref.CanonRefs(rr.out) != ref.CanonRefs(want.Out) {
		return bad(true, "output differs\n got  %q\n want %q\n%s", rr.out, want.Out, showSources(names, srcs))
	}
	// oracle 1: invariant on the frame, computed from the implementation's own output
	i, j := strings.Index(rr.out, s1), strings.LastIndex(rr.out, s2)
	if c.Carrier == "loop-around-call" || c.Carrier == "msg" && c.Decoy >= 3 {
		i = strings.LastIndex(rr.out, s1) // the second iteration: a call has returned before this print (or: the message behind its twin)
	}
	if i < 0 || j < i {
		return bad(true, "sentinels not found in output %q", rr.out)
	}
	frame := rr.out[i+len(s1) : j]

	// text of the value after the non-cancelling directives (truncate), and the chain's class
	val := c.Value
	htmlDir, cancel, other := "", false, false
	for _, d := range c.Chain {
		switch d.Name {
		case "truncate":
			if htmlDir != "" {
				return excluded("truncate after an HTML-producing directive")
			}
			args := make([]ref.Value, len(d.Args))
			for k, a := range d.Args {
				args[k], _, _ = ref.EvalExpr(a, ref.NewEnv(nil, nil, false, nil))
			}
			var st ref.Status
			func() {
				defer func() {
					if r := recover(); r != nil {
						st = ref.Unspecified
					}
				}()
				val, _ = ref.ApplyDirective("truncate", val, args)
			}()
			if st != ref.OK {
				return excluded("truncate outside its exact model")
			}
		case "escapeHtml", "changeNewlineToBr", "insertWordBreaks":
			if htmlDir != "" {
				return excluded("two HTML-producing directives")
			}
			htmlDir = d.Name
		case "noAutoescape", "id":
			cancel = true
		default:
			other = true
		}
	}
	text, _ := val.Text()
	if htmlDir != "" && strings.IndexByte(text, 0) >= 0 {
		// the library escaper behind these directives replaces NUL by U+FFFD; the
		// statement neither requires nor forbids that, so it is not judged
		return excluded("NUL through an HTML-producing directive")
	}
	escaping := (modeOn(pns, ptm) && !cancel) || htmlDir != ""
	if c.Carrier == "letc-reprint" {
		// the second print's data is the captured text: judged by the exact model (oracle 2) only
		return finishC03(c, text, modeOn(c.NsMode, c.TmplMode))
	}
	switch {
	case other:
		// another encoding (escapeUri, escapeJsString, json): nothing asserted here (C16)
	case escaping:
		f := frame
		cmp := text
		switch htmlDir {
		case "changeNewlineToBr":
			f = strings.ReplaceAll(f, "<br>", "\n")
			cmp = strings.ReplaceAll(strings.ReplaceAll(cmp, "\r\n", "\n"), "\r", "\n")
		case "insertWordBreaks":
			f = strings.ReplaceAll(f, "<wbr>", "")
		}
		if err := checkEscaped(f, cmp); err != nil {
			return bad(true, "%v\n carrier=%s modes ns=%q tmpl=%q callee ns=%q tmpl=%q chain=%v\n%s", err, c.Carrier, c.NsMode, c.TmplMode, c.CalleeNs, c.CalleeMode, chainString(c.Chain), showSources(names, srcs))
		}
	default:
		if frame != text {
			return bad(true, "unescaped print changed the value: %q -> %q (chain %v)", text, frame, chainString(c.Chain))
		}
	}
	return finishC03(c, text, escaping)
}

func chainString(ch []ref.Directive) string {
	var s []string
	for _, d := range ch {
		s = append(s, d.Name)
	}
	return strings.Join(s, "|")
}

func finishC03(c C03Case, text string, escaping bool) Verdict {
	v := ok(hasSpecial(text) && escaping, "carrier:"+c.Carrier)
	if escaping {
		v.Classes = append(v.Classes, "escaping")
	} else {
		v.Classes = append(v.Classes, "raw")
	}
	if len(c.Chain) > 0 {
		v.Classes = append(v.Classes, "chain:"+chainString(c.Chain))
	}
	v.Classes = append(v.Classes, "kind:"+c.Value.K.String())
	return v
}

var c03Alphabet = []string{"&", "<", ">", "\"", "'", "&", "<", "a", "b", " ", "\n", "\r\n", "é", "日", "𝄞", "&amp;", "&lt;", "&#39;", "</script>", "<!--", "]]>", "x", "0", "\t", "\xff", "\xc3", "\x00", "\x7f", "&#", "&;", "javascript:", "onclick=", "=", "/", "\\", "`"}

func genC03Value(t *rapid.T) ref.Value {
	str := func() string {
		switch rapid.IntRange(0, 5).Draw(t, "strkind") {
		case 0:
			return string([]byte{byte(rapid.IntRange(0, 255).Draw(t, "byte"))})
		case 1:
			n := rapid.IntRange(20, 120).Draw(t, "run")
			return strings.Repeat(rapid.SampledFrom(c03Alphabet).Draw(t, "piece"), n)
		case 2:
			return rapid.String().Draw(t, "s")
		}
		n := rapid.IntRange(0, 8).Draw(t, "n")
		var b strings.Builder
		for i := 0; i < n; i++ {
			b.WriteString(rapid.SampledFrom(c03Alphabet).Draw(t, "piece"))
		}
		return b.String()
	}
	switch rapid.IntRange(0, 9).Draw(t, "valkind") {
	case 0:
		return ref.I(int64(rapid.IntRange(-1000, 1000).Draw(t, "i")))
	case 1:
		return ref.F(float64(rapid.IntRange(-100, 100).Draw(t, "f")) / 4)
	case 2:
		return ref.B(rapid.Bool().Draw(t, "b"))
	case 3:
		return ref.N()
	case 4:
		return ref.L(ref.S(str()), ref.S(str()), ref.I(1))
	case 5:
		return ref.M(map[string]ref.Value{"k<": ref.S(str()), "b": ref.L(ref.S(str()))})
	}
	return ref.S(str())
}

func genC03(t *rapid.T) C03Case {
	c := C03Case{
		Value:      genC03Value(t),
		Carrier:    rapid.SampledFrom(c03Carriers).Draw(t, "carrier"),
		NsMode:     rapid.SampledFrom(c03Modes).Draw(t, "ns"),
		TmplMode:   rapid.SampledFrom(c03Modes).Draw(t, "tmpl"),
		CalleeNs:   rapid.SampledFrom(c03Modes).Draw(t, "calleeNs"),
		CalleeMode: rapid.SampledFrom(c03Modes).Draw(t, "calleeTmpl"),
		Header:     rapid.Bool().Draw(t, "header"),
		Split:      rapid.SampledFrom([]int{0, 0, 0, 1, 2, 3, 4}).Draw(t, "split"),
		Bundle:     rapid.IntRange(0, 3).Draw(t, "bundle") == 0,
		Decoy:      rapid.SampledFrom([]int{0, 0, 1, 2, 3, 4}).Draw(t, "decoy"),
		Source:     rapid.SampledFrom([]int{0, 0, 0, 1, 1, 2, 3}).Draw(t, "source"),
		Harden:     rapid.IntRange(0, 7).Draw(t, "harden") == 5,
	}
	n := rapid.SampledFrom([]int{0, 0, 1, 1, 2, 3}).Draw(t, "chainLen")
	for i := 0; i < n; i++ {
		switch rapid.IntRange(0, 8).Draw(t, "dir") {
		case 0:
			c.Chain = append(c.Chain, ref.Directive{Name: "noAutoescape"})
		case 1:
			c.Chain = append(c.Chain, ref.Directive{Name: "id"})
		case 2:
			c.Chain = append(c.Chain, ref.Directive{Name: "escapeHtml"})
		case 3:
			c.Chain = append(c.Chain, ref.Directive{Name: "changeNewlineToBr"})
		case 4:
			c.Chain = append(c.Chain, ref.Directive{Name: "insertWordBreaks", Args: []*ref.Expr{intE(rapid.IntRange(1, 200).Draw(t, "wb"))}})
		case 5, 6:
			d := ref.Directive{Name: "truncate", Args: []*ref.Expr{intE(rapid.IntRange(0, 40).Draw(t, "tr"))}}
			if rapid.Bool().Draw(t, "ell") {
				d.Args = append(d.Args, &ref.Expr{Op: "bool", B: rapid.Bool().Draw(t, "ellv")})
			}
			c.Chain = append(c.Chain, d)
		case 7:
			c.Chain = append(c.Chain, ref.Directive{Name: "escapeUri"})
		case 8:
			c.Chain = append(c.Chain, ref.Directive{Name: rapid.SampledFrom([]string{"escapeJsString", "json"}).Draw(t, "enc")})
		}
	}
	return c
}

// exhaustive sub-tier: every single byte, every pair and triple of the five
// specials, through every carrier, three mode classes and three chains.
func c03Exhaustive(t *testing.T, rec func(c C03Case, v Verdict) bool) (n int) {
	var values []string
	for b := 0; b < 256; b++ {
		values = append(values, string([]byte{byte(b)}))
	}
	sp := []string{"&", "<", ">", "\"", "'"}
	for _, a := range sp {
		for _, b := range sp {
			values = append(values, a+b)
			for _, c := range sp {
				values = append(values, a+b+c)
			}
		}
	}
	chains := [][]ref.Directive{nil, {{Name: "escapeHtml"}}, {{Name: "noAutoescape"}}, {{Name: "insertWordBreaks", Args: []*ref.Expr{intE(2)}}}, {{Name: "changeNewlineToBr"}}}
	modes := [][2]string{{"", ""}, {"false", ""}, {"false", "contextual"}, {"true", "false"}}
	for _, val := range values {
		for cari, car := range c03Carriers {
			for mi, m := range modes {
				for ci, ch := range chains {
					if !thorough() && (mi+ci+len(val))%3 != 0 {
						continue // quick tier: a deterministic third of the grid
					}
					c := C03Case{Value: ref.S(val), Carrier: car, NsMode: m[0], TmplMode: m[1], CalleeNs: m[0], CalleeMode: m[1], Chain: ch, Source: (mi*5 + ci + cari + len(val) + int(val[0])) % 4}
					n++
					histLog(c)
					if !rec(c, checkC03(c)) {
						return n
					}
				}
			}
		}
	}
	return n
}

func TestC03(t *testing.T) {
	fileRoute = true
	defer func() { fileRoute = false }()
	if shard() == "0" && os.Getenv("VERIF_REPLAY") == "" && os.Getenv("VERIF_CORPUS_ONLY") == "" {
		rec := newRecorder("C03x")
		failed := false
		n := c03Exhaustive(t, func(c C03Case, v Verdict) bool {
			rec.record(c, v)
			if v.Err != nil {
				writeFail("C03", c, v.Err)
				failed = true
				t.Errorf("exhaustive tier: %v", v.Err)
				return false
			}
			return true
		})
		rec.add("exhaustive_grid_cases", n)
		rec.flush()
		if failed {
			return
		}
	}
	runPropCrashy(t, "C03", genC03, checkC03)
}
