package props

import (
	"bytes"
	"encoding/json"
	"fmt"
	"github.com/robfig/soy/soyjs"
	"net/url"
	"os"
	"strconv"
	"strings"
	"testing"
	"unicode/utf16"
	"unicode/utf8"

	"pgregory.net/rapid"

	"verif/harness/gen"
	"verif/harness/ref"
)

// C16: print directives and their JavaScript counterparts encode faithfully.
// Every oracle is an independent decoder or a structural predicate; none of
// them re-implements the encoder.

type C16Case struct {
	Value ref.Value `json:"value"`
	Dir   string    `json:"dir"`            // escapeUri escapeJsString json changeNewlineToBr insertWordBreaks truncate
	Arg   int       `json:"arg,omitempty"`  // truncate / insertWordBreaks limit
	Ell   int       `json:"ell,omitempty"`  // truncate: 0 default, 1 true, 2 false
	Then  string    `json:"then,omitempty"` // a second directive chained after the first ("" = none)
	// ThenArg: the argument of the second directive when it takes one (insertWordBreaks)
	ThenArg int `json:"then_arg,omitempty"`
	JS    bool      `json:"js,omitempty"`   // check the JavaScript counterpart instead of the Go directive
	// InLoop: the print command runs in the second iteration of a loop, after an iteration with another
	// value and another limit; the limit is an expression over the loop variable
	InLoop bool `json:"in_loop,omitempty"`
	// InMsg: the print command is the second placeholder of a translated message whose first
	// placeholder prints the same value through the same directive with another limit
	InMsg bool `json:"in_msg,omitempty"`
	// Gen (JavaScript cases): the directive is reached through the generated code of the template
	// {$x|directive} (1: autoescaping off for the namespace, 2: on) instead of by calling its function
	Gen int `json:"gen,omitempty"`
}

var c16Pieces = []string{"a", "b", " ", "  ", "\n", "\r\n", "\r", "\t", "&", "<", ">", "\"", "'", "&lt;", "&amp;", "&#39;", "<b>", "</b>", "<a href=\"x\">", "é", "ü", "日本語", "𝄞", "\U0010FFFF", "%", "+", "/", "?", "=", "#", "~", "-", "_", ".", "!", "*", "(", ")", "\\", " ", " ", "</script>", "\x00", "\x01", "\x7f", "word", "averyveryverylongwordwithoutanyspaces", "%41", "%zz", "{", "}", ";", ":", "@", ",", "$", "[", "]", "|", "^", "`"}

var c16Encoded = []string{"[]", "{}", "[1,2,3]", `{"admin":true}`, `"quoted"`, "null", "true", "false", "123", "-1.5e3", `["a","b"]`, `{"a":{"b":[null]}}`, " [1] ", "[1,]", `\"`,
	"%20", "a%2Fb", "%E2%82%AC", "%", "\\x3c", "\\u0041", "\\n", "\\", "\\'", "<br>", "<br/>", "a<br>b", "<wbr>", "abc<wbr>def", "...", "a...", "…", "&hellip;", "&#10;", "NaN", "undefined", "0x1F", "1e400"}

func genC16(t *rapid.T) C16Case {
	c := C16Case{Dir: rapid.SampledFrom([]string{"escapeUri", "escapeJsString", "json", "changeNewlineToBr", "insertWordBreaks", "insertWordBreaks", "truncate", "truncate"}).Draw(t, "dir")}
	c.JS = rapid.IntRange(0, 2).Draw(t, "js") == 0
	var b strings.Builder
	switch rapid.IntRange(0, 9).Draw(t, "shape") {
	case 0:
		b.WriteString(rapid.String().Draw(t, "any"))
	case 1:
		b.WriteString(strings.Repeat(rapid.SampledFrom(c16Pieces).Draw(t, "piece"), rapid.IntRange(50, 2000).Draw(t, "rep")))
	case 2:
		if !c.JS {
			b.Write(rapid.SliceOfN(rapid.Byte(), 0, 12).Draw(t, "bytes")) // any bytes, incl. invalid UTF-8
		}
	case 3:
		// a value that already looks like the result of an encoding (it is still just a string)
		b.WriteString(rapid.SampledFrom(c16Encoded).Draw(t, "encoded"))
		if rapid.IntRange(0, 3).Draw(t, "encodedTail") == 0 {
			b.WriteString(rapid.SampledFrom(c16Encoded).Draw(t, "encoded2"))
		}
	default:
		for i, n := 0, rapid.IntRange(0, 10).Draw(t, "n"); i < n; i++ {
			b.WriteString(rapid.SampledFrom(c16Pieces).Draw(t, "piece"))
		}
	}
	c.Value = ref.S(b.String())
	if rapid.IntRange(0, 24).Draw(t, "memberName") == 11 {
		// a value that spells a member every JavaScript object has (a table keyed by values answers for these
		// whether it was ever given them or not)
		c.Value = ref.S(rapid.SampledFrom([]string{"constructor", "toString", "valueOf", "hasOwnProperty", "__proto__", "isPrototypeOf", "toLocaleString", "propertyIsEnumerable", "__defineGetter__", "prototype", "length", "name"}).Draw(t, "member"))
	}
	if (c.Dir == "escapeUri" || c.Dir == "escapeJsString") && rapid.IntRange(0, 5).Draw(t, "scalar") == 0 {
		// the directives take any printable value: numbers print with signs, dots and exponents
		c.Value = rapid.SampledFrom([]ref.Value{ref.I(0), ref.I(-7), ref.I(1 << 40), ref.F(1e21), ref.F(-6.02e23), ref.F(1.5e300), ref.F(1e-7), ref.F(2.5), ref.F(-0.5),
			ref.F(3.4028234663852886e38), ref.B(true), ref.B(false), ref.N()}).Draw(t, "scalarValue")
	}
	if c.Dir == "json" && rapid.IntRange(0, 2).Draw(t, "structured") > 0 {
		g := &gen.G{T: t, P: gen.Profile{Unicode: true, HTMLChars: true}}
		c.Value = g.AnyValue(3)
	}
	n := utf8.RuneCountInString(c.Value.S)
	c.Arg = rapid.IntRange(1, 40).Draw(t, "arg")
	if c.Dir == "truncate" {
		// limits around the length of the value matter most
		c.Arg = rapid.SampledFrom([]int{0, 1, 2, 3, 4, 5, n - 3, n - 2, n - 1, n, n + 1, n + 3, n / 2, 7, 20}).Draw(t, "limit")
		if c.Arg < 0 {
			c.Arg = 0
		}
		c.Ell = rapid.IntRange(0, 2).Draw(t, "ell")
	}
	if c.JS {
		c.Gen = rapid.SampledFrom([]int{0, 1, 2}).Draw(t, "gen")
	}
	c.InLoop = !c.JS && rapid.IntRange(0, 3).Draw(t, "inLoop") == 0
	c.InMsg = !c.JS && !c.InLoop && rapid.IntRange(0, 3).Draw(t, "inMsg") == 0 && !strings.ContainsAny(c.Value.S, "«»") && !strings.Contains(c.Value.S, c16Sep)
	if rapid.IntRange(0, 4).Draw(t, "chain") == 0 && c.Dir == "truncate" && !c.JS {
		c.Then = rapid.SampledFrom([]string{"escapeUri", "escapeJsString", "changeNewlineToBr", "escapeHtml", "insertWordBreaks", "insertWordBreaks"}).Draw(t, "then")
		if c.Then == "insertWordBreaks" {
			c.ThenArg = rapid.IntRange(1, 60).Draw(t, "thenArg") // (a number of its own, next to the limit of truncate)
		}
	}
	return c
}

func (c C16Case) directives() []ref.Directive {
	d := ref.Directive{Name: c.Dir}
	switch c.Dir {
	case "truncate":
		d.Args = []*ref.Expr{intE(c.Arg)}
		if c.Ell > 0 {
			d.Args = append(d.Args, &ref.Expr{Op: "bool", B: c.Ell == 1})
		}
	case "insertWordBreaks":
		d.Args = []*ref.Expr{intE(c.Arg)}
	}
	ds := []ref.Directive{d}
	if c.Then == "insertWordBreaks" {
		ds = append(ds, ref.Directive{Name: c.Then, Args: []*ref.Expr{intE(c.ThenArg)}})
	} else if c.Then != "" {
		ds = append(ds, ref.Directive{Name: c.Then})
	}
	return ds
}

// applyGo renders {$x|directives} in a template with autoescaping off.
func applyGo(c C16Case) (string, error) {
	if c.InLoop && (c.Dir == "truncate" || c.Dir == "insertWordBreaks") {
		return applyGoInLoop(c)
	}
	if c.InMsg && (c.Dir == "truncate" || c.Dir == "insertWordBreaks") {
		return applyGoInMsg(c)
	}
	p := ref.Program{Files: []ref.File{{Name: "d.soy", Namespace: "d", Autoescape: "false", Templates: []ref.Template{{Name: "t", Params: []ref.ParamDecl{{Name: "x"}},
		Body: []ref.Cmd{{K: "print", Expr: varE("x"), Directives: c.directives()}}}}}}}
	names, srcs := gen.Sources(&p)
	cb, err, pn := compileBundle(names, srcs, nil)
	if err != nil || pn != nil {
		return "", fmt.Errorf("compile: %v %v", err, pn)
	}
	rr := cb.render("d.t", map[string]ref.Value{"x": c.Value}, nil, false)
	if rr.panicked != nil {
		return "", fmt.Errorf("render panicked: %v", rr.panicked)
	}
	if rr.err != nil {
		return "", fmt.Errorf("render failed: %v", trunc(rr.err.Error(), 300))
	}
	return rr.out, nil
}

const c16Sep = "⟦sep-7f3a⟧"

func applyGoInLoop(c C16Case) (string, error) {
	it := func(k string) *ref.Expr {
		return &ref.Expr{Op: "ref", Name: "it", Access: []ref.Access{{Kind: "key", Key: k}}}
	}
	ds := c.directives()
	ds[0].Args[0] = &ref.Expr{Op: "+", Args: []*ref.Expr{it("w"), intE(0)}}
	p := ref.Program{Files: []ref.File{{Name: "d.soy", Namespace: "d", Autoescape: "false", Templates: []ref.Template{{Name: "t", Params: []ref.ParamDecl{{Name: "items"}},
		Body: []ref.Cmd{{K: "for", Style: 1, Var: "it", Expr: varE("items"), Body: []ref.Cmd{{K: "print", Expr: it("v"), Directives: ds}, {K: "text", Text: c16Sep}}}}}}}}}
	names, srcs := gen.Sources(&p)
	cb, err, pn := compileBundle(names, srcs, nil)
	if err != nil || pn != nil {
		return "", fmt.Errorf("compile: %v %v", err, pn)
	}
	decoyW := c.Arg + 5
	if c.Arg > 6 {
		decoyW = c.Arg / 2
	}
	items := ref.L(ref.M(map[string]ref.Value{"v": ref.S("decoy value, long enough to be cut"), "w": ref.I(int64(decoyW))}),
		ref.M(map[string]ref.Value{"v": c.Value, "w": ref.I(int64(c.Arg))}))
	rr := cb.render("d.t", map[string]ref.Value{"items": items}, nil, false)
	if rr.panicked != nil {
		return "", fmt.Errorf("render panicked: %v", rr.panicked)
	}
	if rr.err != nil {
		return "", fmt.Errorf("render failed: %v", trunc(rr.err.Error(), 300))
	}
	out := strings.TrimSuffix(rr.out, c16Sep)
	i := strings.Index(out, c16Sep)
	if i < 0 || !strings.HasSuffix(rr.out, c16Sep) {
		return "", fmt.Errorf("render of the loop lost a separator: %q", trunc(rr.out, 300))
	}
	return out[i+len(c16Sep):], nil
}

func applyGoInMsg(c C16Case) (string, error) {
	decoy := c
	decoy.Arg = c.Arg + 5
	if c.Arg > 6 {
		decoy.Arg = c.Arg / 2
	}
	decoy.Then = ""
	p := ref.Program{Files: []ref.File{{Name: "d.soy", Namespace: "d", Autoescape: "false", Templates: []ref.Template{{Name: "t", Params: []ref.ParamDecl{{Name: "x"}},
		Body: []ref.Cmd{{K: "msg", Desc: "d", Body: []ref.Cmd{
			{K: "print", Expr: varE("x"), Directives: decoy.directives()}, {K: "text", Text: c16Sep},
			{K: "print", Expr: varE("x"), Directives: c.directives()}, {K: "text", Text: c16Sep}}}}}}}}}
	names, srcs := gen.Sources(&p)
	cb, err, pn := compileBundle(names, srcs, nil)
	if err != nil || pn != nil {
		return "", fmt.Errorf("compile: %v %v", err, pn)
	}
	var buf bytes.Buffer
	var rerr error
	if pnc := catch(func() {
		rerr = cb.tofu.NewRenderer("d.t").WithMessages(identityBundle(cb)).Execute(&buf, toDataMap(map[string]ref.Value{"x": c.Value}))
	}); pnc != nil {
		return "", fmt.Errorf("render panicked: %v", pnc)
	}
	if rerr != nil {
		return "", fmt.Errorf("render failed: %v", trunc(rerr.Error(), 300))
	}
	out := strings.NewReplacer("«", "", "»", "").Replace(buf.String())
	parts := strings.Split(out, c16Sep)
	if len(parts) != 3 {
		return "", fmt.Errorf("render of the message lost a separator: %q", trunc(buf.String(), 300))
	}
	return parts[1], nil
}

// applyJSGenerated runs the JavaScript generated for the one-print template with $x = the value.
func applyJSGenerated(c C16Case) (string, error) {
	mode := "false"
	ds := c.directives()
	if c.Gen == 2 {
		// under autoescaping the directives that produce HTML cancel it; the others get |noAutoescape so
		// that the directive's own output is what is judged
		mode = "true"
		switch c.Dir {
		case "changeNewlineToBr", "insertWordBreaks":
		default:
			ds = append(ds, ref.Directive{Name: "noAutoescape"})
		}
	}
	if len(c.Value.S)%2 == 1 {
		// a marker directive in front (it encodes nothing and has no JavaScript counterpart)
		ds = append([]ref.Directive{{Name: "id"}}, ds...)
	}
	p := ref.Program{Files: []ref.File{{Name: "d.soy", Namespace: "dgen", Autoescape: mode, Templates: []ref.Template{{Name: "t", Params: []ref.ParamDecl{{Name: "x"}},
		Body: []ref.Cmd{{K: "print", Expr: varE("x"), Directives: ds}}}}}}}
	names, srcs := gen.Sources(&p)
	cb, err, pn := compileBundle(names, srcs, nil)
	if err != nil || pn != nil {
		return "", fmt.Errorf("compile: %v %v", err, pn)
	}
	before := cb.render("dgen.t", map[string]ref.Value{"x": c.Value}, nil, false)
	files, err := jsSources(cb, soyjs.Options{}, false)
	if err != nil {
		return "", err
	}
	// the compiled bundle serves both back ends: generating the script leaves it as it was
	if again, err2 := jsSources(cb, soyjs.Options{}, false); err2 != nil || len(again) != len(files) || again[0].Src != files[0].Src {
		return "", fmt.Errorf("generating the JavaScript of one compiled bundle a second time gives another script (%v):\n%s\n--- then ---\n%s", err2, files[0].Src, again[0].Src)
	}
	if after := cb.render("dgen.t", map[string]ref.Value{"x": c.Value}, nil, false); after.out != before.out || (after.err == nil) != (before.err == nil) {
		return "", fmt.Errorf("the Go renderer writes %q before the JavaScript of the same compiled bundle is generated and %q after", trunc(before.out, 200), trunc(after.out, 200))
	}
	calls := []jsCall{{Name: "dgen.t", Data: map[string]interface{}{"x": c.Value.S}}}
	if len(c.Value.S)%3 == 0 {
		// the page has rendered other values before this one, in the same JavaScript realm: text that is
		// not well-formed UTF-16 (a directive may throw on it) and text full of the characters the
		// directives treat specially. Neither may change what the value under test becomes.
		calls = append([]jsCall{{Name: "dgen.t", Data: json.RawMessage(c16Poison[1])}, {Name: "dgen.t", Data: json.RawMessage(c16Poison[0])}}, calls...)
	}
	resp, err := theNode.do(jsRequest{Files: files, Calls: calls})
	if err != nil {
		return "", fmt.Errorf("infra: %v", err)
	}
	if resp.Load[0] != nil {
		return "", fmt.Errorf("generated JavaScript does not load: %s\n%s", *resp.Load[0], files[0].Src)
	}
	last := resp.Results[len(resp.Results)-1]
	if !last.OK {
		return "", fmt.Errorf("generated function threw %s\n%s", last.Error, files[0].Src)
	}
	return last.Out, nil
}

// c16Poison: data (as JSON text: Go strings cannot hold a lone surrogate) rendered before the value under test
var c16Poison = []string{`{"x":"a value of some length, so that a position kept from it lies far into the next one: it's (new) \ud83d"}`, `{"x":"\ude00 (a) 'b' <c> & \n"}`}

func jsStr(s string) string { b, _ := json.Marshal(s); return string(b) }

// applyJS calls the soyutils function behind the directive in node.
func applyJS(c C16Case) (string, error) {
	v, _ := json.Marshal(toJSON(c.Value))
	arg := "JSON.parse(" + jsStr(string(v)) + ")"
	var ex string
	switch c.Dir {
	case "escapeUri":
		ex = "soy.$$escapeUri(" + arg + ")"
	case "escapeJsString":
		ex = "soy.$$escapeJsString(" + arg + ")"
	case "json":
		ex = "JSON.stringify(" + arg + ")"
	case "changeNewlineToBr":
		ex = "soy.$$changeNewlineToBr(soy.$$escapeHtml(" + arg + "))"
	case "insertWordBreaks":
		ex = fmt.Sprintf("soy.$$insertWordBreaks(soy.$$escapeHtml(%s), %d)", arg, c.Arg)
	case "truncate":
		ex = fmt.Sprintf("soy.$$truncate(%s, %d, %v)", arg, c.Arg, c.Ell != 2)
	}
	evals := []string{"String(" + ex + ")"}
	if len(c.Value.S)%3 == 1 {
		// (other values went through the same function before, see c16Poison)
		fn := ex[:strings.Index(ex, "(")]
		evals = append([]string{"(function(){try{" + fn + "(\"(')*!~ \\uDE00\", 2)}catch(e){}; try{" + fn + "(\"a value of some length, so that a position kept from it lies far into the next one: it's (\\uD83D a<b>&\\n\", 3)}catch(e){}; return 0})()"}, evals...)
	}
	resp, err := theNode.do(jsRequest{Evals: evals})
	if err != nil {
		return "", fmt.Errorf("infra: %v", err)
	}
	judged := resp.Evals[len(resp.Evals)-1]
	if !judged.OK {
		return "", fmt.Errorf("javascript threw %s", judged.Error)
	}
	var out string
	if err := json.Unmarshal(judged.Value, &out); err != nil {
		return "", fmt.Errorf("infra: %v", err)
	}
	return out, nil
}

func htmlDecode(s string) string {
	return strings.NewReplacer("&amp;", "&", "&lt;", "<", "&gt;", ">", "&quot;", "\"", "&#34;", "\"", "&#39;", "'", "&apos;", "'", "&#0;", "\x00").Replace(s)
}

// decoders: return the pre-image of an encoded text, or an error if it is not a safe/faithful encoding
func decodeUri(out string, js bool) (string, error) {
	for i := 0; i < len(out); i++ {
		ch := out[i]
		safe := ch >= 'a' && ch <= 'z' || ch >= 'A' && ch <= 'Z' || ch >= '0' && ch <= '9' || strings.IndexByte("-_.~%!*", ch) >= 0 || (!js && ch == '+') // unreserved, the two sub-delimiters that both backends keep (! and *), escapes - not the quote and the parentheses, which both backends encode (a quote would end an attribute value)
		if !safe {
			return "", fmt.Errorf("character %q at offset %d is not URL-safe", ch, i)
		}
	}
	if js {
		out = strings.ReplaceAll(out, "+", "%2B")
	}
	dec, err := url.QueryUnescape(out)
	if err != nil {
		return "", fmt.Errorf("does not percent-decode: %v", err)
	}
	return dec, nil
}

func decodeJsString(out string) (string, error) {
	// (quotes and line terminators are covered by the evaluation below: a raw one ends or breaks the string)
	if l := strings.ToLower(out); strings.Contains(l, "</script") || strings.Contains(l, "<!--") {
		return "", fmt.Errorf("the escaped text can end the enclosing script element")
	}
	resp, err := theNode.do(jsRequest{Evals: []string{"'" + out + "'", "\"" + out + "\""}})
	if err != nil {
		return "", fmt.Errorf("infra: %v", err)
	}
	var first string
	for i, e := range resp.Evals {
		if !e.OK {
			return "", fmt.Errorf("placed between quotes it does not evaluate: %s", e.Error)
		}
		var s string
		if err := json.Unmarshal(e.Value, &s); err != nil {
			return "", fmt.Errorf("placed between quotes it evaluates to a non-string")
		}
		if i == 0 {
			first = s
		} else if s != first {
			return "", fmt.Errorf("evaluates differently between single and double quotes")
		}
	}
	return first, nil
}

func jsLen(s string) int { return len(utf16.Encode([]rune(s))) }

// truncateOK is the structural predicate for truncate (length unit: runes for Go, UTF-16 units for JS).
func truncateOK(value, got string, limit int, ellipsis bool, js bool) error {
	length := utf8.RuneCountInString
	if js {
		length = jsLen
	}
	if length(value) <= limit {
		if got != value {
			return fmt.Errorf("the value fits (%d <= %d) but was changed to %q", length(value), limit, got)
		}
		return nil
	}
	if got == value {
		return fmt.Errorf("the value is longer than the limit (%d > %d) but was returned unchanged", length(value), limit)
	}
	if length(got) > limit {
		return fmt.Errorf("result %q has length %d, limit %d", trunc(got, 80), length(got), limit)
	}
	body := got
	if strings.HasSuffix(got, "...") && ellipsis && limit > 3 {
		body = got[:len(got)-3]
	} else if ellipsis && limit > 3 {
		return fmt.Errorf("no ellipsis on a truncated value with limit %d: %q", limit, trunc(got, 80))
	}
	if !strings.HasPrefix(value, body) {
		return fmt.Errorf("result %q is not a prefix of the value", trunc(got, 80))
	}
	if utf8.ValidString(value) && !utf8.ValidString(got) {
		return fmt.Errorf("result %q is not valid UTF-8 (cut inside a character)", trunc(got, 80))
	}
	if utf8.ValidString(value) && !utf8.RuneStart(append([]byte(value), 'x')[len(body)]) {
		return fmt.Errorf("cut inside a character at byte %d", len(body))
	}
	return nil
}

func jsonEqual(a, b interface{}) bool {
	x, _ := json.Marshal(a)
	y, _ := json.Marshal(b)
	return bytes.Equal(x, y)
}

func checkC16(c C16Case) Verdict {
	text, _ := c.Value.Text()
	if c.JS && !utf8.ValidString(text) {
		return excluded("JavaScript strings cannot hold invalid UTF-8")
	}
	if c.JS && hasBigInt(c.Value) {
		return excluded("JavaScript numbers cannot hold integers beyond 2^53")
	}
	if c.JS && c.Dir == "insertWordBreaks" && hasAstral(text) && os.Getenv("VERIF_WITNESS") == "" && findingOpen("F34") {
		return excluded("known finding F34: soy.$$insertWordBreaks splits surrogate pairs")
	}
	var out string
	var err error
	if c.JS && c.Gen > 0 && c.Value.K == ref.String {
		out, err = applyJSGenerated(c)
	} else if c.JS {
		out, err = applyJS(c)
	} else {
		out, err = applyGo(c)
	}
	side := "Go"
	if c.JS {
		side = "JavaScript"
	}
	if err != nil {
		if strings.HasPrefix(err.Error(), "infra") {
			return excluded(err.Error())
		}
		return bad(true, "%s %s on %q: %v", side, c.Dir, trunc(text, 200), err)
	}
	fail := func(format string, a ...interface{}) Verdict {
		return bad(true, "%s |%s (arg %d) on %q gives %q: %s", side, c.Dir, c.Arg, trunc(text, 300), trunc(out, 300), fmt.Sprintf(format, a...))
	}
	// a chained second directive is decoded first
	pre := out
	switch c.Then {
	case "escapeUri":
		if pre, err = decodeUri(out, false); err != nil {
			return fail("chained escapeUri: %v", err)
		}
	case "escapeJsString":
		if !utf8.ValidString(out) {
			return excluded("invalid UTF-8 cannot be evaluated in node")
		}
		if pre, err = decodeJsString(out); err != nil {
			if strings.HasPrefix(err.Error(), "infra") {
				return excluded(err.Error())
			}
			return fail("chained escapeJsString: %v", err)
		}
	case "escapeHtml":
		if strings.IndexByte(text, 0) >= 0 {
			return excluded("NUL through an HTML-producing directive")
		}
		pre = htmlDecode(out)
	case "changeNewlineToBr":
		if strings.IndexByte(text, 0) >= 0 || strings.ContainsAny(text, "\r\n") {
			return excluded("chained changeNewlineToBr on text with line breaks or NUL")
		}
		pre = htmlDecode(out)
	case "insertWordBreaks":
		// (break opportunities are all it adds; each of the two directives has a number of its own)
		if strings.IndexByte(text, 0) >= 0 || strings.ContainsAny(text, "&<>\"'") {
			return excluded("chained insertWordBreaks on text with markup characters or NUL")
		}
		pre = strings.ReplaceAll(out, "<wbr>", "")
		run := 0
		for _, r := range strings.ReplaceAll(out, "<wbr>", "\x00") {
			if r == 0 || r == ' ' || r == '\t' || r == '\n' || r == '\r' {
				run = 0
				continue
			}
			if run++; run > c.ThenArg {
				return fail("chained insertWordBreaks:%d leaves a run of more than %d characters without a break opportunity", c.ThenArg, c.ThenArg)
			}
		}
	}
	nt := false
	switch c.Dir {
	case "escapeUri":
		dec, err := decodeUri(out, c.JS)
		if err != nil {
			return fail("%v", err)
		}
		if dec != text {
			return fail("percent-decodes to %q, not to the value", trunc(dec, 200))
		}
		nt = strings.ContainsAny(text, " %+&=?#/<>\"'") || !isASCII(text)
	case "escapeJsString":
		if !utf8.ValidString(out) {
			return excluded("invalid UTF-8 cannot be evaluated in node")
		}
		dec, err := decodeJsString(out)
		if err != nil {
			if strings.HasPrefix(err.Error(), "infra") {
				return excluded(err.Error())
			}
			return fail("%v", err)
		}
		if dec != text {
			return fail("between quotes it evaluates to %q, not to the value", trunc(dec, 200))
		}
		nt = needsJSEscape(text)
	case "json":
		if !utf8.ValidString(fmt.Sprint(toJSON(c.Value))) {
			return excluded("JSON cannot carry invalid UTF-8")
		}
		dec := json.NewDecoder(strings.NewReader(out))
		dec.UseNumber()
		var got interface{}
		if err := dec.Decode(&got); err != nil {
			return fail("does not parse as JSON: %v", err)
		}
		var want interface{}
		wb, _ := json.Marshal(toJSON(c.Value))
		wd := json.NewDecoder(bytes.NewReader(wb))
		wd.UseNumber()
		wd.Decode(&want)
		if !jsonEqual(normNumbers(got), normNumbers(want)) {
			return fail("parses to a different value")
		}
		if strings.Contains(out, "</") || strings.Contains(out, "<!--") {
			// json is documented as "another encoding"; script-safety is not part of the statement
		}
		nt = c.Value.K == ref.List || c.Value.K == ref.Map || needsJSEscape(text)
	case "changeNewlineToBr":
		if strings.IndexByte(text, 0) >= 0 {
			return excluded("NUL through an HTML-producing directive")
		}
		norm := strings.ReplaceAll(strings.ReplaceAll(text, "\r\n", "\n"), "\r", "\n")
		segs := strings.Split(norm, "\n")
		gotSegs := strings.Split(out, "<br>")
		if len(gotSegs) != len(segs) {
			return fail("%d <br> for %d line breaks", len(gotSegs)-1, len(segs)-1)
		}
		for i := range segs {
			if err := checkEscaped(gotSegs[i], segs[i]); err != nil {
				return fail("segment %d: %v", i, err)
			}
		}
		nt = len(segs) > 1
	case "insertWordBreaks":
		if strings.IndexByte(text, 0) >= 0 {
			return excluded("NUL through an HTML-producing directive")
		}
		if err := checkEscaped(strings.ReplaceAll(out, "<wbr>", ""), text); err != nil {
			return fail("apart from the inserted <wbr>: %v", err)
		}
		// no break inside a character reference; no unbroken run longer than the limit (a reference counts as one)
		for _, piece := range strings.Split(out, "<wbr>") {
			if i := strings.LastIndexByte(piece, '&'); i >= 0 && !strings.Contains(piece[i:], ";") {
				return fail("a <wbr> splits a character reference")
			}
		}
		for _, word := range strings.FieldsFunc(out, func(r rune) bool { return r == ' ' }) {
			for _, run := range strings.Split(word, "<wbr>") {
				n := utf8.RuneCountInString(htmlDecode(run))
				if c.JS {
					n = jsLen(htmlDecode(run))
				}
				if n > c.Arg {
					return fail("an unbroken run of %d characters exceeds the limit %d", n, c.Arg)
				}
			}
		}
		nt = strings.Contains(out, "<wbr>")
	case "truncate":
		if err := truncateOK(text, pre, c.Arg, c.Ell != 2, c.JS); err != nil {
			return fail("%v", err)
		}
		n := utf8.RuneCountInString(text)
		nt = c.Arg >= n-3 && c.Arg <= n+3
	}
	cl := side + ":" + c.Dir
	if c.Then != "" {
		cl += "|" + c.Then
	}
	return ok(nt, cl)
}

func isASCII(s string) bool {
	for i := 0; i < len(s); i++ {
		if s[i] >= 0x80 {
			return false
		}
	}
	return true
}

// normNumbers maps json.Number to a canonical text (1.0 and 1 are the same number).
func normNumbers(v interface{}) interface{} {
	switch v := v.(type) {
	case json.Number:
		if i, err := strconv.ParseInt(string(v), 10, 64); err == nil {
			return "n" + strconv.FormatInt(i, 10)
		}
		f, _ := v.Float64()
		if f == float64(int64(f)) && f < 1e15 && f > -1e15 {
			return "n" + strconv.FormatInt(int64(f), 10)
		}
		return "n" + strconv.FormatFloat(f, 'g', -1, 64)
	case []interface{}:
		out := make([]interface{}, len(v))
		for i := range v {
			out[i] = normNumbers(v[i])
		}
		return out
	case map[string]interface{}:
		out := map[string]interface{}{}
		for k, x := range v {
			out[k] = normNumbers(x)
		}
		return out
	}
	return v
}

func TestC16(t *testing.T) {
	fileRoute = true
	defer func() { fileRoute = false }()
	defer theNode.stop()
	runProp(t, "C16", genC16, checkC16)
}

func hasBigInt(v ref.Value) bool {
	switch v.K {
	case ref.Int:
		return v.I > 1<<53 || v.I < -(1<<53)
	case ref.Float:
		return v.F > 1e300 || (v.F != 0 && v.F < 1e-300 && v.F > -1e-300)
	case ref.List:
		for _, x := range v.L {
			if hasBigInt(x) {
				return true
			}
		}
	case ref.Map:
		for _, x := range v.M {
			if hasBigInt(x) {
				return true
			}
		}
	}
	return false
}
