package props

import (
	"bytes"
	"fmt"
	"log"
	"os"
	"path/filepath"
	"strings"
	"sync"
	"sync/atomic"
	"time"

	"github.com/robfig/soy"
	"github.com/robfig/soy/ast"
	"github.com/robfig/soy/soyhtml"

	"verif/harness/gen"
	"verif/harness/ref"
)

// The watch tier of C13: a bundle compiled with WatchFiles(true) recompiles itself when one of its
// files changes and installs the result in the registry the application holds. That recompilation is a
// compilation of the files as they are now: what the application then sees - message ids, placeholder
// names, the output of renderers it created before the change - must be what a plain compilation of the
// same files gives.
//
// A watcher cannot be closed through the library's API (it lives as long as the process), and the
// kernel limits their number: a process runs the tier for its first few eligible cases only. When the
// notification does not arrive in time (no inotify, a loaded machine) the case is counted as
// inconclusive, never as a violation.

var (
	c13Watches    int32
	c13WatchLimit = int32(4)
	c13LogMu      sync.Mutex
)

type signalWriter struct{ ch chan string }

func (w signalWriter) Write(p []byte) (int, error) {
	select {
	case w.ch <- string(p):
	default:
	}
	return len(p), nil
}

func msgLines(regTemplates func(func(name string, n ast.Node))) []string {
	var lines []string
	regTemplates(func(name string, n ast.Node) {
		i := 0
		collectMsgs(n, func(m *ast.MsgNode) {
			lines = append(lines, fmt.Sprintf("%s#%d id=%d %s", name, i, m.ID, placeholderNames(m)))
			i++
		})
	})
	return lines
}

// c13Watch returns (violation, inconclusive reason).
func c13Watch(c C13Case) (error, string) {
	if c.BreakFile >= 0 || len(c.SyntaxErrors) > 0 || len(c.Prog.Prog.Files) == 0 {
		return nil, "n/a"
	}
	if atomic.AddInt32(&c13Watches, 1) > c13WatchLimit {
		return nil, "n/a"
	}
	dir := filepath.Join(outDir(), fmt.Sprintf("c13-watch-%s-%d", shard(), atomic.LoadInt32(&c13Watches)))
	os.RemoveAll(dir)
	if err := os.MkdirAll(dir, 0o755); err != nil {
		return nil, "cannot create directory"
	}
	// (the directory stays: removing it would wake the watcher, which outlives this case)
	names, srcs := gen.Sources(&c.Prog.Prog)
	paths := make([]string, len(names))
	for i := range names {
		paths[i] = filepath.Join(dir, fmt.Sprintf("f%d.soy", i))
		if err := os.WriteFile(paths[i], []byte(srcs[i]), 0o644); err != nil {
			return nil, "cannot write file"
		}
	}
	// the library reports a finished update through its logger only
	c13LogMu.Lock()
	defer c13LogMu.Unlock()
	sig := signalWriter{make(chan string, 16)}
	saved := soy.Logger
	soy.Logger = log.New(sig, "", 0)
	defer func() { soy.Logger = saved }()

	b := soy.NewBundle().WatchFiles(true)
	for _, p := range paths {
		b.AddTemplateFile(p)
	}
	if len(c.Prog.Prog.Globals) > 0 {
		b.AddGlobalsMap(toDataMap(c.Prog.Prog.Globals))
	}
	reg, err := b.Compile()
	if err != nil {
		return nil, "does not compile"
	}
	tofu := soyhtml.NewTofu(reg)
	// renderers the application created before the change
	var fqs []string
	for fq := range c.Prog.AllData {
		fqs = append(fqs, fq)
	}
	kept := map[string]*soyhtml.Renderer{}
	for _, fq := range fqs {
		kept[fq] = tofu.NewRenderer(fq)
	}
	// the change: every template of the first file starts with new text, and a template is added
	changed := c.Prog.Prog
	changed.Files = append([]ref.File{}, changed.Files...)
	f0 := changed.Files[0]
	f0.Templates = append([]ref.Template{}, f0.Templates...)
	for i := range f0.Templates {
		t := f0.Templates[i]
		t.Body = append([]ref.Cmd{{K: "text", Text: "v2:"}}, t.Body...)
		f0.Templates[i] = t
	}
	changed.Files[0] = f0
	_, srcs2 := gen.Sources(&changed)
	srcs2[0] += "\n/** */\n{template .zzAddedLater}{msg desc=\"later\"}added {1 + 1}{/msg}{/template}\n"
	time.Sleep(20 * time.Millisecond) // (the watcher's goroutine is started by Compile)
	if err := os.WriteFile(paths[0], []byte(srcs2[0]), 0o644); err != nil {
		return nil, "cannot rewrite file"
	}
	deadline := time.After(4 * time.Second)
	updated := false
	for !updated {
		select {
		case line := <-sig.ch:
			if !strings.Contains(line, dir) {
				continue // (a watcher left by an earlier case of this process)
			}
			if strings.Contains(line, "update successful") {
				updated = true
			} else if !strings.Contains(line, "update") {
				return fmt.Errorf("the recompilation after a change of %s failed: %s\n%s", paths[0], line, showSources(names, srcs2)), ""
			}
		case <-deadline:
			return nil, "no update notification within 4 s"
		}
	}
	time.Sleep(30 * time.Millisecond) // a write may raise two events: let the second update finish too
	// what a plain compilation of the files as they are now gives
	fresh, ferr, fpn := compileBundle(paths, srcs2, c.Prog.Prog.Globals) // (from strings: the files are not touched again)
	if ferr != nil || fpn != nil {
		return nil, "plain compilation of the changed files failed"
	}
	want := msgLines(func(f func(string, ast.Node)) {
		for _, t := range fresh.reg.Templates {
			f(t.Node.Name, t.Node)
		}
	})
	got := msgLines(func(f func(string, ast.Node)) {
		for _, t := range reg.Templates {
			f(t.Node.Name, t.Node)
		}
	})
	if strings.Join(got, "\n") != strings.Join(want, "\n") {
		return fmt.Errorf("after a watched file changed, the registry the application holds has other message ids / placeholder names than a plain compilation of the same files; first difference at %s\n%s",
			firstDiff(strings.Join(want, "\n"), strings.Join(got, "\n")), showSources(names, srcs2)), ""
	}
	for _, fq := range fqs {
		var wbuf, gbuf bytes.Buffer
		d := toDataMap(c.Prog.AllData[fq])
		ij := toDataMap(c.Prog.IJ)
		wr := fresh.tofu.NewRenderer(fq)
		gr := kept[fq]
		if c.Prog.HasIJ {
			wr.Inject(ij)
			gr.Inject(ij)
		}
		var werr, gerr error
		wp := catch(func() { werr = wr.Execute(&wbuf, d) })
		gp := catch(func() { gerr = gr.Execute(&gbuf, d) })
		if wbuf.String() != gbuf.String() || (werr != nil) != (gerr != nil) || (wp != nil) != (gp != nil) {
			return fmt.Errorf("after a watched file changed, a renderer of %s created before the change writes %q (error %v); a plain compilation of the same files writes %q (error %v)\n%s",
				fq, trunc(gbuf.String(), 300), gerr != nil, trunc(wbuf.String(), 300), werr != nil, showSources(names, srcs2)), ""
		}
	}
	return nil, ""
}
