package props

import (
	"os"
	"path/filepath"
	"unicode/utf8"
	"bytes"

	"fmt"
	"github.com/robfig/soy/ast"
	"reflect"
	"strings"
	"time"
	"unsafe"

	"github.com/robfig/soy"
	"github.com/robfig/soy/data"
	"github.com/robfig/soy/parse"
	"github.com/robfig/soy/parsepasses"
	"github.com/robfig/soy/soyhtml"
	"github.com/robfig/soy/template"

	"verif/harness/gen"
	"verif/harness/ref"
)

type compiled struct {
	tofu *soyhtml.Tofu
	reg  *template.Registry
}

// globalsInTwoMaps, when set, are the globals of the next compilations as two maps of the application
// (set and cleared by the check that owns them).
var globalsInTwoMaps *[2]data.Map

// compileBundle compiles sources with the implementation under test.
func compileBundle(names, srcs []string, globals map[string]ref.Value) (c *compiled, err error, panicked interface{}) {
	if handBuilt > 0 && c03Pass == nil && globalsInTwoMaps == nil {
		return compileByHand(names, srcs, globals, handBuilt == 1)
	}
	panicked = catch(func() {
		b := soy.NewBundle()
		if fileRoute && len(srcs) > 0 && strHash(strings.Join(srcs, "\x00"))%3 == 0 {
			// the same sources as files on disk, added one by one (the file name of an error is then the
			// path: only for checks that do not look at it)
			dir := filepath.Join(outDir(), "route-"+shard())
			os.RemoveAll(dir)
			os.MkdirAll(dir, 0o755)
			defer os.RemoveAll(dir)
			for i := range names {
				fp := filepath.Join(dir, fmt.Sprintf("%02d.soy", i))
				if werr := os.WriteFile(fp, []byte(srcs[i]), 0o644); werr != nil {
					err = fmt.Errorf("harness: cannot write %s: %v", fp, werr)
					return
				}
				b.AddTemplateFile(fp)
			}
		} else {
			for i := range names {
				b.AddTemplateString(names[i], srcs[i])
			}
		}
		if len(globals) > 0 && globalsInTwoMaps != nil {
			// the application's own maps, kept by it and given again at every compilation
			b.AddGlobalsMap(globalsInTwoMaps[0]).AddGlobalsMap(globalsInTwoMaps[1])
		} else if len(globals) > 0 {
			if len(srcs[0])%2 == 0 && utf8.ValidString(fmt.Sprint(globals)) {
				// through the globals file syntax (NAME = literal) and its parser (a file is text: values
				// that are not valid UTF-8 can only be given through the map)
				var gf strings.Builder
				gf.WriteString("// generated globals\n\n")
				for _, k := range ref.SortedKeys(globals) {
					fmt.Fprintf(&gf, "%s = %s\n", k, gen.PrintExpr(gen.Lit(globals[k])))
				}
				m, gerr := soy.ParseGlobals(strings.NewReader(gf.String()))
				if gerr != nil {
					err = fmt.Errorf("globals file rejected: %v\n%s", gerr, gf.String())
					return
				}
				b.AddGlobalsMap(m)
			} else if dm := toDataMap(globals); len(dm) >= 2 && strHash(srcs[0])%3 == 0 {
				// in two maps (application-wide globals and those of this deployment): the maps stay the
				// application's own
				two := [2]data.Map{{}, {}}
				for i, k := range ref.SortedKeys(globals) {
					two[i%2][k] = dm[k]
				}
				n0, n1 := len(two[0]), len(two[1])
				b.AddGlobalsMap(two[0]).AddGlobalsMap(two[1])
				defer func() {
					if err == nil && (len(two[0]) != n0 || len(two[1]) != n1) {
						err = fmt.Errorf("AddGlobalsMap changed a map it was given: %d and %d entries before, %d and %d after", n0, n1, len(two[0]), len(two[1]))
						c = nil
					}
				}()
			} else {
				b.AddGlobalsMap(dm)
			}
		}
		if c03Pass != nil {
			b.AddParsePass(c03Pass)
		}
		reg, e := b.Compile()
		// a bundle may be compiled more than once (Compile for the JavaScript generator, CompileToTofu
		// for the renderer): the second result must be the first one again
		if recompileCheck {
			tofu2, e2 := b.CompileToTofu()
			switch {
			case (e == nil) != (e2 == nil) || e != nil && e.Error() != e2.Error():
				err = fmt.Errorf("%s the first Compile() returned %v, CompileToTofu() on the same bundle then returned %v", recompilePrefix, e, e2)
				return
			case e == nil && reg != nil:
				if d1, d2 := registryShape(reg), registryShape(tofuRegistry(tofu2)); d1 != d2 {
					err = fmt.Errorf("%s the templates differ between the first and the second compilation:\n %s\n %s", recompilePrefix, d1, d2)
					return
				}
			}
		}
		if e != nil {
			err = e
			return
		}
		c = &compiled{soyhtml.NewTofu(reg), reg}
	})
	return
}

// handBuilt makes compileBundle build the registry through the lower-level API that Bundle.Compile itself
// uses (parse.SoyFile, Registry.Add, the passes of package parsepasses, soyhtml.NewTofu): 1 with the
// message pass, 2 without it (an application that has no catalogues may leave it out: the messages then
// carry no ids and render their source text).
var handBuilt int

func compileByHand(names, srcs []string, globals map[string]ref.Value, messages bool) (c *compiled, err error, panicked interface{}) {
	panicked = catch(func() {
		reg := &template.Registry{}
		for i := range names {
			tree, e := parse.SoyFile(names[i], srcs[i])
			if e != nil {
				err = e
				return
			}
			if e := reg.Add(tree); e != nil {
				err = e
				return
			}
		}
		if e := parsepasses.CheckDataRefs(*reg); e != nil {
			err = e
			return
		}
		if e := parsepasses.SetGlobals(*reg, toDataMap(globals)); e != nil {
			err = e
			return
		}
		if messages {
			parsepasses.ProcessMessages(*reg)
		}
		c = &compiled{soyhtml.NewTofu(reg), reg}
	})
	return
}

// fileRoute makes compileBundle load a third of the bundles from files instead of strings (set by checks
// that judge what is rendered, not where an error is reported).
var fileRoute bool

// recompileCheck makes compileBundle compile every bundle a second time (set by the checks that judge
// the compiler's decision: C07, C13).
var recompileCheck bool

const recompilePrefix = "compiling the same Bundle twice gives different results:"

// tofuRegistry digs the registry out of a Tofu (an unexported field).
func tofuRegistry(t *soyhtml.Tofu) *template.Registry {
	if t == nil {
		return nil
	}
	f := reflect.ValueOf(t).Elem().FieldByName("registry")
	return (*template.Registry)(unsafe.Pointer(f.Pointer()))
}

// registryShape lists the templates of a registry with their declared params.
func registryShape(reg *template.Registry) string {
	if reg == nil {
		return "<nil>"
	}
	var b strings.Builder
	for _, t := range reg.Templates {
		b.WriteString(t.Node.Name + "(")
		if t.Doc != nil {
			for _, p := range t.Doc.Params {
				fmt.Fprintf(&b, "%s/%v ", p.Name, p.Optional)
			}
		}
		b.WriteString(") ")
	}
	return b.String()
}

type renderResult struct {
	out      string
	err      error
	panicked interface{}
}

func (c *compiled) render(entry string, data map[string]ref.Value, ij map[string]ref.Value, hasIJ bool) (r renderResult) {
	var buf bytes.Buffer
	r.panicked = catch(func() {
		if !hasIJ && len(entry)%2 == 0 && data != nil {
			// the convenience entry point: plain Go values, converted by the renderer itself
			r.err = c.tofu.Render(&buf, entry, toJSONMap(data))
			return
		}
		rd := c.tofu.NewRenderer(entry)
		if hasIJ {
			rd.Inject(toDataMap(ij))
		}
		d := toDataMap(data)
		r.err = rd.Execute(&buf, d)
	})
	r.out = buf.String()
	return
}

func showSources(names, srcs []string) string {
	var b strings.Builder
	for i := range names {
		fmt.Fprintf(&b, "--- %s ---\n%s\n", names[i], srcs[i])
	}
	return b.String()
}

// progStats classifies a generated program for the evidence histograms.
type progStats struct {
	calls, lets, loops, ifs, switches, msgs, prints, maxOps, dataAll, dataExpr, blockParams, nonPrintPos int
}

func statsOf(p *ref.Program) progStats {
	var st progStats
	var walkCmds func(cs []ref.Cmd)
	exprs := func(es ...*ref.Expr) {
		for _, e := range es {
			if e != nil {
				if n := e.CountOps(); n > st.maxOps {
					st.maxOps = n
				}
			}
		}
	}
	walkCmds = func(cs []ref.Cmd) {
		for i := range cs {
			c := &cs[i]
			exprs(c.Expr)
			switch c.K {
			case "print":
				st.prints++
				for _, d := range c.Directives {
					exprs(d.Args...)
					if len(d.Args) > 0 {
						st.nonPrintPos++
					}
				}
			case "if":
				st.ifs++
				st.nonPrintPos++
			case "switch":
				st.switches++
				st.nonPrintPos++
			case "for":
				st.loops++
				st.nonPrintPos++
			case "let":
				st.lets++
				st.nonPrintPos++
			case "letc":
				st.lets++
			case "msg":
				st.msgs++
			case "css", "plural":
				if c.Expr != nil {
					st.nonPrintPos++
				}
			case "call":
				st.calls++
				if c.Call.DataAll {
					st.dataAll++
				}
				if c.Call.Data != nil {
					st.dataExpr++
					exprs(c.Call.Data)
				}
				for _, p := range c.Call.Params {
					exprs(p.Value)
					if p.IsBlock {
						st.blockParams++
						walkCmds(p.Content)
					} else {
						st.nonPrintPos++
					}
				}
			}
			for _, b := range c.Branches {
				exprs(b.Cond)
				exprs(b.Values...)
				walkCmds(b.Body)
			}
			walkCmds(c.Body)
			walkCmds(c.Else)
		}
	}
	for _, f := range p.Files {
		for _, t := range f.Templates {
			walkCmds(t.Body)
		}
	}
	return st
}

// hasPluralMsg: some message of the bundle has a {plural} (the identity bundle renders those by the
// bundle's own plural rule, not by the source's cases).
func hasPluralMsg(cb *compiled) bool {
	found := false
	for _, t := range cb.reg.Templates {
		collectMsgs(t.Node, func(m *ast.MsgNode) {
			for _, ch := range m.Body.Children() {
				if _, isPl := ch.(*ast.MsgPluralNode); isPl {
					found = true
				}
			}
		})
	}
	return found
}

// checkProgram is the differential between the reference interpreter and the
// Go renderer, shared by C01 and C02 (they differ in generator profile and in
// the non-triviality rule).
func checkProgram(id string, c gen.ProgCase) (Verdict, ref.Result, progStats) {
	names, srcs := gen.Sources(&c.Prog)
	st := statsOf(&c.Prog)
	want := ref.Render(&c.Prog, c.Entry, c.Data, c.IJ, c.HasIJ)
	if want.Status == ref.Unspecified {
		return excluded("unspecified: " + firstWords(want.Msg, 4)), want, st
	}
	var (
		cb  *compiled
		rr  renderResult
		err error
		pn  interface{}
	)
	if !finishes(watchdogLimit(), func() {
		cb, err, pn = compileBundle(names, srcs, c.Prog.Globals)
		if err == nil && pn == nil {
			rr = cb.render(c.Entry, c.Data, c.IJ, c.HasIJ)
		}
	}) {
		hangExit(id, c, "compile+render of a generated program")
	}
	if pn != nil {
		return bad(true, "compiler panicked: %v\n%s", pn, showSources(names, srcs)), want, st
	}
	if err != nil {
		return bad(true, "valid program rejected by the compiler: %v\n%s", err, showSources(names, srcs)), want, st
	}
	if rr.panicked != nil {
		return bad(true, "render panicked: %v\n%s", rr.panicked, showSources(names, srcs)), want, st
	}
	switch want.Status {
	case ref.OK:
		if rr.err != nil {
			return bad(true, "render failed: %v\nwant output %q\n%s", rr.err, want.Out, showSources(names, srcs)), want, st
		}
		if ref.CanonRefs(rr.out) != ref.CanonRefs(want.Out) {
			return bad(true, "output differs\n got  %q\n want %q\n%s data=%v", rr.out, want.Out, showSources(names, srcs), c.Data), want, st
		}
		// the same render through a bundle of (marked) identity translations: the marks aside, the same text
		if st.msgs > 0 {
			// every message of a compiled bundle has its id (also one that stands in the content of a
			// param of a call inside another message)
			noID := ""
			for _, t := range cb.reg.Templates {
				collectMsgs(t.Node, func(m *ast.MsgNode) {
					if m.ID == 0 {
						noID = t.Node.Name + ": " + m.String()
					}
				})
			}
			if noID != "" {
				return bad(true, "a message of the compiled bundle has no id: %s\n%s", trunc(noID, 200), showSources(names, srcs)), want, st
			}
		}
		if st.msgs > 0 && !strings.ContainsAny(strings.Join(srcs, "")+fmt.Sprint(c.Data, c.IJ), "«»") && !hasPluralMsg(cb) {
			var buf bytes.Buffer
			var berr error
			if p := catch(func() {
				rd := cb.tofu.NewRenderer(c.Entry).WithMessages(identityBundle(cb))
				if c.HasIJ {
					rd.Inject(toDataMap(c.IJ))
				}
				berr = rd.Execute(&buf, toDataMap(c.Data))
			}); p != nil || berr != nil {
				return bad(true, "render with an identity message bundle failed: %v %v\n%s", p, berr, showSources(names, srcs)), want, st
			}
			if marked := ref.RenderMarked(&c.Prog, c.Entry, c.Data, c.IJ, c.HasIJ); marked.Status == ref.OK && ref.CanonRefs(buf.String()) != ref.CanonRefs(marked.Out) {
				return bad(true, "output through a message bundle of marked identity translations differs\n got  %q\n want %q\n%s data=%v", buf.String(), marked.Out, showSources(names, srcs), c.Data), want, st
			}
		}
	case ref.Valueless:
		if rr.err == nil {
			return bad(true, "render returned nil error for a valueless expression (%s); wrote %q\n%s", want.Msg, rr.out, showSources(names, srcs)), want, st
		}
		if !strings.HasPrefix(ref.CanonRefs(want.Out), ref.CanonRefs(rr.out)) {
			return bad(true, "render produced text beyond the failing expression (%s)\n got  %q\n allowed prefix of %q\n%s", want.Msg, rr.out, want.Out, showSources(names, srcs)), want, st
		}
	}
	return Verdict{}, want, st
}

func firstWords(s string, n int) string {
	f := strings.Fields(s)
	if len(f) > n {
		f = f[:n]
	}
	return strings.Join(f, " ")
}

var _ = time.Second
