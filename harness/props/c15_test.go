package props

import (
	"bytes"
	"log"

	"github.com/robfig/soy/soyhtml"
	"fmt"
	"os"
	"path/filepath"
	"strconv"
	"strings"
	"testing"

	"pgregory.net/rapid"

	"verif/harness/ref"
)

// C15: template text is normalised by the line-joining rule and nothing else.
//
//	L1 comment-free text runs between every kind of neighbour: output = reference normaliser (exact)
//	L2 comments: nothing of a comment reaches the output, the non-whitespace text outside comments
//	   arrives intact and in order, text like http://x is kept verbatim (join spacing at a comment
//	   boundary is not judged - the statement does not fix it)
//	L3 literal blocks and special-character commands emit exactly their characters

type C15Case struct {
	Level    string   `json:"level"` // L1 L2 L3
	Runs     []string `json:"runs"`  // L1: text runs; L2: pieces (text / comment) ; L3: literal bodies
	Neighbor int      `json:"neighbor"`
	Kinds    []string `json:"kinds,omitempty"`  // L2: "text" | "line" | "block" per piece
	Header   bool     `json:"header,omitempty"` // the templates declare $x in the header ({@param}) instead of soydoc
}

var c15Alphabet = []string{"a", "\x00", "<", ">", " ", "\t", "\r", "\n", "/", "é", "\u00a0", "\u2028", "\v", "\f"}

// c15Wide: the alphabet of the random tier - also characters whose code point ends in the byte of a white
// space character (U+4E0A, U+4E0D, U+4E09, U+2020, U+010D, U+0120, U+2009) or that Unicode calls a space
var c15Wide = append(append([]string{}, c15Alphabet...), "上", "不", "三", "†", "č", "Ġ", "\u2009", "\u3000", "\u0085", "\ufeff", "\U0001F600",
	// bytes that are not valid UTF-8 (a file in a legacy 8-bit encoding), as the marker runes of ref.ExpandRaw:
	// 0xE9, 0xFF, 0xA0 (a no-break space in Latin-1), 0x85, a truncated sequence
	"\uf7e9", "\uf7ff", "\uf7a0", "\uf785", "\uf7e2\uf782",
	// pieces of markup, in either case
	"%", "%d", "100%", "%s %v", "A", "<A>", "</A>", "<Br/>", "<a HREF=\"u\">", "<TD", "<Img src=x>")

// c15Forms: a block whose body ends in a comment; mid is the closing or continuing tag behind the comment,
// close what follows the text behind it. innerShown: the body text before the comment is rendered.
type c15Form struct {
	name, open, mid, close string
	innerShown             bool
}

var c15Forms = []c15Form{
	{"if-end", "{if true}", "{/if}", "", true},
	{"if-else", "{if false}", "{else}", "{/if}", false},
	{"if-elseif", "{if false}", "{elseif true}", "{/if}", false},
	{"else-end", "{if false}no{else}", "{/if}", "", true},
	{"foreach-end", "{foreach $i in [1]}", "{/foreach}", "", true},
	{"foreach-ifempty", "{foreach $i in []}", "{ifempty}", "{/foreach}", false},
	{"for-end", "{for $i in range(1)}", "{/for}", "", true},
	{"switch-case", "{switch 2}{case 1}", "{case 2}", "{/switch}", false},
	{"switch-default", "{switch 2}{case 1}", "{default}", "{/switch}", false},
	{"switch-end", "{switch 1}{case 1}", "{/switch}", "", true},
	{"msg-end", "{msg desc=\"d\"}", "{/msg}", "", true},
	{"log-end", "{log}", "{/log}", "", false},
}

// neighbours: what stands before and after the run inside the template, and what they render to
var c15Neighbors = []struct{ name, before, after, outBefore, outAfter string }{
	{"template-edges", "", "", "", ""},
	{"prints", "{$x}", "{$x}", "X", "X"},
	{"sp", "{sp}", "{sp}", " ", " "},
	{"nil", "{nil}", "{nil}", "", ""},
	{"if-block", "{if true}", "{/if}", "", ""},
	{"calls", "{call .e /}", "{call .e /}", "E", "E"},
	{"print-then-edge", "{$x}", "", "X", ""},
	{"literal", "{literal}[{/literal}", "{literal}]{/literal}", "[", "]"},
	{"self-closing-let", "{let $q: 1 /}", "{$q}", "", "1"},
	{"call-with-param", "{call .f}{param x: 2 /}{/call}", "{call .f}{param x}3{/param}{/call}", "F2", "F3"},
	// (the text stands in a content block, between two content blocks of its own)
	{"between-inner-blocks", "{let $o}{let $i}I{/let}", "{let $j}J{/let}{$i}{$j}{/let}{$o|noAutoescape}", "", "IJ"},
	{"between-content-params", "{let $o}{call .g}{param x}1{/param}{param y}2{/param}{/call}", "{call .f}{param x}3{/param}{/call}{/let}{$o|noAutoescape}", "G12", "F3"},
	// (the text of a {log} block goes to the application's logger, the same characters)
	{"log-block", "{log}", "{/log}", "", ""},
	// (the text of a message: what looks like an HTML tag in it is a placeholder of the message, and still text)
	{"msg", "{msg desc=\"d\"}", "{/msg}", "", ""},
	{"msg-after-print", "{msg desc=\"d\"}{$x}", "{$x}{/msg}", "X", "X"},
}

// gaps: places between two tags of one command, where no text can be rendered
var c15Gaps = []struct{ name, before, after, out string }{
	{"between {switch} and its first {case}", "[{switch 1}", "{case 1}A{/switch}]", "[A]"},
	{"between {plural} and its first {case}", "[{msg desc=\"d\"}{plural 1}", "{case 1}A{default}B{/plural}{/msg}]", "[A]"},
	{"between {call} and its first {param}", "[{call .f}", "{param x: 2 /}{/call}]", "[F2]"},
	{"between the last {param} and {/call}", "[{call .f}{param x: 2 /}", "{/call}]", "[F2]"},
	{"between a content {param} and {/call}", "[{call .f}{param x}2{/param}", "{/call}]", "[F2]"},
	{"between two {param}s", "[{call .g}{param x: 2 /}", "{param y: 3 /}{/call}]", "[G23]"},
}

// c15Header: the templates of the bundle being built declare their param in the header.
var c15Header bool

func c15Source(bodies []string) string {
	var b strings.Builder
	bodies = append([]string{}, bodies...)
	for i := range bodies {
		bodies[i] = ref.ExpandRaw(bodies[i])
	}
	b.WriteString("{namespace n}\n/** */\n{template .e}E{/template}\n/** @param x */\n{template .f}F{$x}{/template}\n/**\n * @param x\n * @param y */\n{template .g}G{$x}{$y}{/template}\n")
	for i, body := range bodies {
		if c15Header {
			fmt.Fprintf(&b, "{template .t%d}{@param x: ?}%s{if false}{$x}{/if}{/template}\n", i, body)
			continue
		}
		fmt.Fprintf(&b, "/** @param x */\n{template .t%d}%s{if false}{$x}{/if}{/template}\n", i, body)
	}
	return b.String()
}

// renderBodies compiles one bundle with a template per body and renders each.
func renderBodies(bodies []string) ([]string, error) {
	outs, err := renderBodiesVia(bodies, false)
	if err != nil {
		return nil, err
	}
	// the same source read from a file (AddTemplateDir) is the same template text
	fromFile, err := renderBodiesVia(bodies, true)
	if err != nil {
		return nil, fmt.Errorf("%s the file is rejected: %v", fileDiff, err)
	}
	for i := range outs {
		if outs[i] != fromFile[i] {
			return nil, fmt.Errorf("%s body %q renders %q from a string and %q from a file", fileDiff, bodies[i], outs[i], fromFile[i])
		}
	}
	return outs, nil
}

const fileDiff = "the same source gives different templates when it is loaded from a file:"

func renderBodiesVia(bodies []string, file bool) ([]string, error) {
	var (
		cb  *compiled
		err error
		pn  interface{}
	)
	if file {
		cb, err, pn = compileDir(filepath.Join(outDir(), "c15-dir-"+shard()), []string{"c15.soy"}, []string{c15Source(bodies)}, nil)
	} else {
		cb, err, pn = compileBundle([]string{"c15.soy"}, []string{c15Source(bodies)}, nil)
	}
	if pn != nil {
		return nil, fmt.Errorf("compiler panicked: %v", pn)
	}
	if err != nil {
		return nil, err
	}
	outs := make([]string, len(bodies))
	for i := range bodies {
		rr := cb.render(fmt.Sprintf("n.t%d", i), map[string]ref.Value{"x": ref.S("X")}, nil, false)
		if rr.err != nil || rr.panicked != nil {
			return nil, fmt.Errorf("render of template %d failed: %v %v", i, rr.err, rr.panicked)
		}
		outs[i] = rr.out
	}
	return outs, nil
}

// hasCommentStart: the run might contain a comment. A run is comment-free when it has no "/*" and
// every "//" in it is preceded by a character that is certainly not whitespace ("//" begins a comment
// only after whitespace; at the very start of a run it follows the closing brace of a tag).
func hasCommentStart(s string) bool {
	if strings.Contains(s, "/*") {
		return true
	}
	rs := []rune(s)
	for i := 0; i+1 < len(rs); i++ {
		if rs[i] == '/' && rs[i+1] == '/' && i > 0 {
			switch rs[i-1] {
			case 'a', '<', '>', '/', 'é':
			default:
				return true
			}
		}
	}
	return false
}

func checkC15(c C15Case) Verdict {
	c15Header = c.Header
	defer func() { c15Header = false }()
	nb := c15Neighbors[c.Neighbor%len(c15Neighbors)]
	if c.Level != "L1" {
		nb = c15Neighbors[c.Neighbor%(len(c15Neighbors)-3)] // (the log block and the two message neighbours take text only)
	}
	switch c.Level {
	case "L1g":
		// a text run where only the separation of two tags may stand (between {switch} and its first
		// {case}, between {plural} and {case}, around the {param}s of a {call}): white space is nothing
		// there; anything else is text that cannot be rendered - it is refused, not dropped
		gp := c15Gaps[c.Neighbor%len(c15Gaps)]
		nt := false
		for _, r := range c.Runs {
			if hasCommentStart(r) || strings.Contains(r, "//") {
				continue
			}
			outs, err := renderBodies([]string{gp.before + r + gp.after})
			if err != nil && strings.HasPrefix(err.Error(), fileDiff) {
				return bad(true, "%v", err)
			}
			if strings.Trim(r, " \t\r\n") == "" {
				if err != nil {
					return bad(true, "white space %q %s is rejected: %v", r, gp.name, err)
				}
				if outs[0] != gp.out {
					return bad(true, "white space %q %s changes the output to %q (%q without it)", r, gp.name, outs[0], gp.out)
				}
				continue
			}
			nt = true
			if err == nil {
				return bad(true, "the text %q %s is accepted and the template renders %q: characters that are not white space were dropped", r, gp.name, outs[0])
			}
		}
		return ok(nt, "L1g:"+gp.name)
	case "L1":
		if nb.name == "log-block" {
			nt := false
			for _, r := range c.Runs {
				var logged bytes.Buffer
				saved := soyhtml.Logger
				soyhtml.Logger = log.New(&logged, "", 0)
				outs, err := renderBodiesVia([]string{nb.before + r + nb.after}, false)
				soyhtml.Logger = saved
				if err != nil {
					return bad(true, "text run %q in a {log} block is rejected: %v", r, err)
				}
				want := ref.NormalizeText(r)
				if !strings.HasSuffix(want, "\n") {
					want += "\n" // (the logger ends each entry with a line break)
				}
				if outs[0] != "" || logged.String() != want {
					return bad(true, "text run %q in a {log} block: the template writes %q and the logger is given %q; the line-joining rule gives %q for the logger and nothing for the output", r, outs[0], logged.String(), want)
				}
				nt = nt || strings.ContainsAny(r, "\r\n%")
			}
			return ok(nt, "L1:"+nb.name)
		}
		bodies := make([]string, len(c.Runs))
		for i, r := range c.Runs {
			bodies[i] = nb.before + r + nb.after
		}
		outs, err := renderBodies(bodies)
		if err != nil && strings.HasPrefix(err.Error(), fileDiff) {
			return bad(true, "%v", err)
		}
		if err != nil {
			// find the culprit
			for _, r := range c.Runs {
				if _, e := renderBodies([]string{nb.before + r + nb.after}); e != nil {
					return bad(true, "text run %q between %s is rejected: %v", r, nb.name, e)
				}
			}
			return bad(true, "bundle of %d text runs rejected: %v", len(c.Runs), err)
		}
		nt := false
		for i, r := range c.Runs {
			want := nb.outBefore + ref.NormalizeText(r) + nb.outAfter
			if outs[i] != want {
				return bad(true, "text run %q between %s renders %q, the line-joining rule gives %q", r, nb.name, outs[i], want)
			}
			if strings.ContainsAny(r, "\r\n") && strings.Trim(r, " \t\r\n") != "" {
				nt = true
			}
		}
		return ok(nt, "L1:"+nb.name)
	case "L2":
		var src, stripped strings.Builder
		verbatim := []string{}
		for i, p := range c.Runs {
			switch c.Kinds[i] {
			case "line":
				src.WriteString(" // CMT" + p + "\n")
			case "line-cr":
				src.WriteString(" // CMT" + p + "\r")
			case "line-crlf":
				src.WriteString(" // CMT" + p + "\r\n")
			case "block":
				src.WriteString("/* CMT" + p + " */")
			case "blockdoc":
				// a block comment that begins with two stars (inside a template this is no soydoc)
				src.WriteString("/** CMT" + p + " */")
			case "blockempty":
				src.WriteString("/**/")
			case "blockslash":
				// a block comment whose text begins with a slash (the "/*/ ... /*/" idiom)
				src.WriteString("/*/ CMT" + p + "*/")
			case "blocktight":
				// nothing between the comment's last character and its end: /* CMT**/, /*CMT x*/
				src.WriteString("/* CMT" + p + "*/")
			default:
				src.WriteString(p)
				stripped.WriteString(p)
				if strings.Contains(p, "://") || strings.HasPrefix(p, "//") || strings.HasPrefix(p, "\x00//") {
					verbatim = append(verbatim, p)
				}
			}
		}
		outs, err := renderBodies([]string{nb.before + src.String() + nb.after})
		if err != nil {
			return bad(true, "template with comments %q rejected: %v", src.String(), err)
		}
		out := outs[0]
		// what a template renders depends on its own source only: the same body after another template of
		// the file that holds the same text pieces, each once behind and once in front of a comment
		var decoy strings.Builder
		for i, p := range c.Runs {
			if c.Kinds[i] == "text" && !strings.HasPrefix(p, "//") {
				decoy.WriteString("{$x}/* c */" + p + "{$x}" + p + "/* c */{$x}")
			}
		}
		if both, err := renderBodies([]string{decoy.String(), nb.before + src.String() + nb.after}); err == nil && both[1] != out {
			return bad(true, "the template %q renders %q alone and %q when another template of the file, %q, comes first", src.String(), out, both[1], decoy.String())
		}
		if strings.Contains(out, "CMT") || strings.Contains(out, "*/") || strings.Contains(out, "/*") {
			return bad(true, "comment text reached the output: source %q renders %q", src.String(), out)
		}
		strip := func(s string) string {
			return strings.Join(strings.FieldsFunc(s, func(r rune) bool { return r == ' ' || r == '\t' || r == '\r' || r == '\n' }), "")
		}
		want := strip(nb.outBefore + stripped.String() + nb.outAfter)
		if strip(out) != want {
			return bad(true, "non-whitespace text changed: source %q renders %q; its non-whitespace characters should be %q", src.String(), out, want)
		}
		for _, v := range verbatim {
			if !strings.Contains(out, strings.TrimSpace(v)) {
				return bad(true, "text %q was not kept verbatim: source %q renders %q", v, src.String(), out)
			}
		}
		return ok(true, "L2:"+nb.name)
	case "L2b":
		// Runs: inner text, comment (as source), text after the tag; Kinds[0]: the tags around.
		// A comment that is the last thing before a closing or continuing tag, and the text behind that
		// tag: the tag ends the text run the comment stands in, so the text behind it is normalised as any
		// text between two tags.
		if len(c.Runs) != 3 || len(c.Kinds) != 1 {
			return excluded("malformed case")
		}
		var form *c15Form
		for i := range c15Forms {
			if c15Forms[i].name == c.Kinds[0] {
				form = &c15Forms[i]
			}
		}
		if form == nil {
			return excluded("unknown form")
		}
		inner, cmt, after := c.Runs[0], c.Runs[1], c.Runs[2]
		body := nb.before + form.open + inner + cmt + form.mid + after + form.close + nb.after
		outs, err := renderBodies([]string{body})
		if err != nil {
			return bad(true, "template %q rejected: %v", body, err)
		}
		out := outs[0]
		wantAfter := ref.NormalizeText(after)
		if form.innerShown {
			tail := wantAfter + nb.outAfter
			if !strings.HasSuffix(out, tail) || !strings.HasPrefix(out, nb.outBefore) || len(out) < len(tail)+len(nb.outBefore) {
				return bad(true, "the text %q behind the tag that follows a comment is rendered differently from text between two tags: source %q renders %q, which should end in %q", after, body, out, tail)
			}
			strip := func(s string) string {
				return strings.Join(strings.FieldsFunc(s, func(r rune) bool { return r == ' ' || r == '\t' || r == '\r' || r == '\n' }), "")
			}
			if got := strip(out[len(nb.outBefore) : len(out)-len(tail)]); got != strip(inner) || strings.Contains(out, "CMT") {
				return bad(true, "source %q renders %q: the block's text should be %q (white space aside) and nothing of the comment", body, out, strip(inner))
			}
		} else if want := nb.outBefore + wantAfter + nb.outAfter; out != want {
			return bad(true, "the text %q behind the tag that follows a comment is rendered differently from text between two tags: source %q renders %q, want %q", after, body, out, want)
		}
		return ok(true, "L2b:"+form.name)
	case "L3":
		bodies := make([]string, len(c.Runs))
		wants := make([]string, len(c.Runs))
		for i, r := range c.Runs {
			if strings.HasPrefix(r, "char:") {
				name := r[5:]
				bodies[i] = nb.before + "{" + name + "}" + nb.after
				wants[i] = nb.outBefore + map[string]string{"sp": " ", "nil": "", "lb": "{", "rb": "}", `\n`: "\n", `\r`: "\r", `\t`: "\t"}[name] + nb.outAfter
			} else if strings.HasPrefix(r, "dbl:") {
				// the block written with double braces: only {{/literal}} ends it, {/literal} is text
				bodies[i] = nb.before + "{{literal}}" + r[4:] + "{{/literal}}" + nb.after
				wants[i] = nb.outBefore + r[4:] + nb.outAfter
			} else {
				bodies[i] = nb.before + "{literal}" + r + "{/literal}" + nb.after
				wants[i] = nb.outBefore + r + nb.outAfter
			}
		}
		outs, err := renderBodies(bodies)
		if err != nil && strings.HasPrefix(err.Error(), fileDiff) {
			return bad(true, "%v", err)
		}
		if err != nil {
			for i := range c.Runs {
				if _, e := renderBodies([]string{bodies[i]}); e != nil {
					return bad(true, "command %q rejected: %v", bodies[i], e)
				}
			}
			return bad(true, "bundle rejected: %v", err)
		}
		for i := range outs {
			if outs[i] != wants[i] {
				return bad(true, "%q renders %q, want exactly %q", bodies[i], outs[i], wants[i])
			}
		}
		return ok(true, "L3:"+nb.name)
	}
	return excluded("unknown level")
}

func genC15(t *rapid.T) C15Case {
	c := C15Case{Neighbor: rapid.IntRange(0, len(c15Neighbors)-1).Draw(t, "neighbor"), Header: rapid.IntRange(0, 2).Draw(t, "header") == 0}
	lv := rapid.IntRange(0, 10).Draw(t, "level")
	if lv == 10 {
		c.Level = "L1g"
		for i, n := 0, rapid.IntRange(1, 4).Draw(t, "nruns"); i < n; i++ {
			var b strings.Builder
			for j, m := 0, rapid.IntRange(1, 4).Draw(t, "len"); j < m; j++ {
				b.WriteString(rapid.SampledFrom(c15Wide).Draw(t, "ch"))
			}
			c.Runs = append(c.Runs, b.String())
		}
		return c
	}
	switch lv {
	case 0, 1, 2, 3, 4:
		c.Level = "L1"
		for i, n := 0, rapid.IntRange(1, 4).Draw(t, "nruns"); i < n; i++ {
			var b strings.Builder
			for j, m := 0, rapid.IntRange(0, scale(60, 200)).Draw(t, "len"); j < m; j++ {
				b.WriteString(rapid.SampledFrom(c15Wide).Draw(t, "ch"))
			}
			r := b.String()
			if hasCommentStart(r) {
				r = strings.ReplaceAll(r, "/", "a")
			}
			c.Runs = append(c.Runs, r)
		}
	case 5, 6, 7:
		c.Level = "L2"
		for i, n := 0, rapid.IntRange(1, 6).Draw(t, "npieces"); i < n; i++ {
			k := rapid.SampledFrom([]string{"text", "text", "line", "block", "slashtext", "blocktight", "line-cr", "line-crlf", "blockdoc", "blockempty", "blockslash"}).Draw(t, "kind")
			switch k {
			case "slashtext":
				// text that begins with "//" directly after a tag, a block comment or a non-whitespace
				// character is not a comment
				k = "text"
				p := rapid.SampledFrom([]string{"//cdn.example.com/a.js", "//x", "///y", "\x00//n"}).Draw(t, "slashtext")
				if i > 0 && p[0] != 0 { // (a NUL is a character like any other: "//" behind it begins no comment)
					prev := c.Runs[i-1]
					if strings.HasPrefix(c.Kinds[i-1], "line") || c.Kinds[i-1] == "text" && (prev == "" || strings.ContainsAny(prev[len(prev)-1:], " \t\r\n")) {
						p = "z" + p
					}
				}
				c.Runs = append(c.Runs, p)
			case "text":
				c.Runs = append(c.Runs, rapid.SampledFrom([]string{"a", "b c", " d ", "\n", "  \n  ", "<p>", "http://x.y/z", "a//b", "e\n", "\nf", "x:// y", "<br>\n", " ", "é", "1/2", "ftp://h/ /p", "上", "不\n三", "a†//b", "č//z", "\u2009", "x上//y", "三/ x", "\u3000", "\x00", "a\x00", "\x00 b"}).Draw(t, "text"))
			case "blockempty":
				c.Runs = append(c.Runs, "")
			case "blockslash":
				c.Runs = append(c.Runs, rapid.SampledFrom([]string{" hidden ", " x /", "/// x ///", "", " {$x} "}).Draw(t, "cmt"))
			case "blockdoc":
				c.Runs = append(c.Runs, rapid.SampledFrom([]string{"", " note", "\n * @param x the x\n", " {$x}", "*", "\n * multi\n * line\n"}).Draw(t, "cmt"))
			case "blocktight":
				c.Runs = append(c.Runs, rapid.SampledFrom([]string{"", "*", "**", "***", "****", " x*", " x **", "/", "/*", " * / *", "*\n*"}).Draw(t, "cmt"))
			case "line", "line-cr", "line-crlf":
				c.Runs = append(c.Runs, rapid.SampledFrom([]string{"", " note", " {$x} {if}", " /* not a block", " http://u"}).Draw(t, "cmt"))
			default:
				c.Runs = append(c.Runs, rapid.SampledFrom([]string{"", " note", "\n multi\n line\n", " {$x} {/if}", " // inner", " * stars *"}).Draw(t, "cmt"))
			}
			c.Kinds = append(c.Kinds, k)
		}
	case 8:
		c.Level = "L2b"
		c.Kinds = []string{c15Forms[rapid.IntRange(0, len(c15Forms)-1).Draw(t, "form")].name}
		c.Runs = []string{
			rapid.SampledFrom([]string{"yes", "a ", "\n  b", "x\n", "", " q  ", "<b>"}).Draw(t, "inner"),
			rapid.SampledFrom([]string{"/* CMT */", " // CMT\n", "/* CMT\n more */", "\n// CMT\n", " /* CMT */ ", "\n  // CMT\n  ", "/* CMT *//* CMT */", "", "/**/", "/** CMT */", "/*/ CMT /*/", "/*/ CMT */", " /** CMT\n * @param x\n */"}).Draw(t, "cmt"),
			rapid.SampledFrom([]string{" done", "\t  end", "  b c ", "x", " \n y", "  ", " ", "\tz", " <i>", "\n", " a\n"}).Draw(t, "after"),
		}
	default:
		c.Level = "L3"
		for i, n := 0, rapid.IntRange(1, 4).Draw(t, "n"); i < n; i++ {
			if rapid.Bool().Draw(t, "char") {
				c.Runs = append(c.Runs, "char:"+rapid.SampledFrom([]string{"sp", "nil", "lb", "rb", `\n`, `\r`, `\t`}).Draw(t, "name"))
				continue
			}
			var b strings.Builder
			for j, m := 0, rapid.IntRange(0, 12).Draw(t, "len"); j < m; j++ {
				b.WriteString(rapid.SampledFrom([]string{"a", " ", "\n", "\t", "{", "}", "{$x}", "//", "/*", "*/", "<", "{/if}", "{literal}", "é", "  ", "\r\n", "{{", "}}"}).Draw(t, "ch"))
			}
			if rapid.IntRange(0, 2).Draw(t, "dbl") == 0 {
				var d strings.Builder
				for j, m := 0, rapid.IntRange(0, 8).Draw(t, "dlen"); j < m; j++ {
					d.WriteString(rapid.SampledFrom([]string{"a", " ", "\n", "{/literal}", "{literal}", "{", "}", "{$x}", "/literal}", "{/literal", "é", "{{literal}}"}).Draw(t, "dch"))
				}
				c.Runs = append(c.Runs, "dbl:"+strings.ReplaceAll(d.String(), "{{/literal}}", "{{/ literal}}"))
				continue
			}
			c.Runs = append(c.Runs, b.String())
		}
	}
	return c
}

// exhaustive sub-tier: every comment-free run up to the length bound, between every neighbour kind.
func c15Exhaustive(t *testing.T, rec *recorder) bool {
	maxLen := scale(4, 5)
	nsh, _ := strconv.Atoi(os.Getenv("VERIF_NSHARDS"))
	if nsh <= 0 {
		nsh = 1
	}
	me, _ := strconv.Atoi(shard())
	var batch []string
	total := 0
	flush := func(nbi int) bool {
		if len(batch) == 0 {
			return true
		}
		c := C15Case{Level: "L1", Runs: batch, Neighbor: nbi, Header: (total/400)%2 == 1}
		histLog(c)
		v := checkC15(c)
		rec.mu.Lock()
		rec.Evaluations += len(batch) - 1
		rec.mu.Unlock()
		rec.record(c, v)
		batch = nil
		if v.Err != nil {
			// shrink to the single run for the replay file
			writeFail("C15", c, v.Err)
			for _, r := range c.Runs {
				one := C15Case{Level: "L1", Runs: []string{r}, Neighbor: nbi, Header: c.Header}
				if v1 := checkC15(one); v1.Err != nil {
					writeFail("C15", one, v1.Err)
					t.Errorf("exhaustive tier: %v", v1.Err)
					return false
				}
			}
			t.Errorf("exhaustive tier: %v", v.Err)
			return false
		}
		return true
	}
	idx := 0
	var rec1 func(prefix string, depth int, nbi int) bool
	rec1 = func(prefix string, depth int, nbi int) bool {
		if !hasCommentStart(prefix) || prefix == "" {
			idx++
			if idx%nsh == me {
				batch = append(batch, prefix)
				total++
				if len(batch) >= 400 && !flush(nbi) {
					return false
				}
			}
		}
		if depth == maxLen {
			return true
		}
		for _, ch := range c15Alphabet {
			if !rec1(prefix+ch, depth+1, nbi) {
				return false
			}
		}
		return true
	}
	for nbi := range c15Neighbors {
		idx = 0
		if !rec1("", 0, nbi) || !flush(nbi) {
			return false
		}
	}
	rec.add("exhaustive_runs_x_neighbours", total)
	rec.add("exhaustive_max_run_length", maxLen)
	return true
}

func TestC15(t *testing.T) {
	if os.Getenv("VERIF_REPLAY") == "" && os.Getenv("VERIF_CORPUS_ONLY") == "" {
		rec := newRecorder("C15x")
		okAll := c15Exhaustive(t, rec)
		rec.flush()
		if !okAll {
			return
		}
	}
	runProp(t, "C15", genC15, checkC15)
}
