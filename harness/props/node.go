package props

import (
	"bufio"
	"encoding/json"
	"fmt"
	"io"
	"os"
	"os/exec"
	"sync"
	"time"
)

// nodeWorker drives js/worker.js (node v20): generated JavaScript is loaded into
// a fresh vm context per request together with soyjs/lib/soyutils.js.

type jsFile struct {
	Name   string `json:"name"`
	Src    string `json:"src"`
	Module bool   `json:"module,omitempty"`
}

type jsCall struct {
	Name string      `json:"name"`
	Data interface{} `json:"data"`
	IJ   interface{} `json:"ij"`
}

type jsRequest struct {
	ID      int      `json:"id"`
	Files   []jsFile `json:"files,omitempty"`
	Plural  string   `json:"plural,omitempty"`
	Calls   []jsCall `json:"calls,omitempty"`
	Typeofs []string `json:"typeofs,omitempty"`
	Evals   []string `json:"evals,omitempty"`
}

type jsResult struct {
	OK    bool   `json:"ok"`
	Out   string `json:"out"`
	Type  string `json:"type"`
	Error string `json:"error"`
}

type jsEval struct {
	OK    bool            `json:"ok"`
	Value json.RawMessage `json:"value"`
	Error string          `json:"error"`
}

type jsResponse struct {
	ID      int        `json:"id"`
	Load    []*string  `json:"load"`
	Results []jsResult `json:"results"`
	Typeofs []string   `json:"typeofs"`
	Evals   []jsEval   `json:"evals"`
	Fatal   string     `json:"fatal"`
}

type nodeWorker struct {
	mu    sync.Mutex
	cmd   *exec.Cmd
	in    io.WriteCloser
	out   *bufio.Reader
	next  int
	calls int
}

var theNode nodeWorker

func envOr(k, d string) string {
	if v := os.Getenv(k); v != "" {
		return v
	}
	return d
}

func (w *nodeWorker) start() error {
	node := envOr("VERIF_NODE", "/usr/bin/node")
	worker := envOr("VERIF_JSWORKER", verifRoot()+"/js/worker.js")
	utils := envOr("VERIF_SOYUTILS", "/repo/soyjs/lib/soyutils.js")
	cmd := exec.Command(node, "--experimental-vm-modules", "--no-warnings", worker, utils)
	in, err := cmd.StdinPipe()
	if err != nil {
		return err
	}
	out, err := cmd.StdoutPipe()
	if err != nil {
		return err
	}
	cmd.Stderr = os.Stderr
	if err := cmd.Start(); err != nil {
		return err
	}
	w.cmd, w.in, w.out = cmd, in, bufio.NewReaderSize(out, 1<<20)
	return nil
}

func (w *nodeWorker) stop() {
	if w.cmd != nil {
		w.in.Close()
		w.cmd.Process.Kill()
		w.cmd.Wait()
		w.cmd = nil
	}
}

// do sends one request. An error means infrastructure trouble (never a property violation).
func (w *nodeWorker) do(req jsRequest) (*jsResponse, error) {
	w.mu.Lock()
	defer w.mu.Unlock()
	if w.cmd == nil {
		if err := w.start(); err != nil {
			return nil, fmt.Errorf("cannot start node: %v", err)
		}
	}
	w.next++
	w.calls++
	req.ID = w.next
	b, err := json.Marshal(req)
	if err != nil {
		return nil, err
	}
	type reply struct {
		line []byte
		err  error
	}
	ch := make(chan reply, 1)
	go func() {
		if _, err := w.in.Write(append(b, '\n')); err != nil {
			ch <- reply{nil, err}
			return
		}
		line, err := w.out.ReadBytes('\n')
		ch <- reply{line, err}
	}()
	select {
	case r := <-ch:
		if r.err != nil {
			w.stop()
			return nil, fmt.Errorf("node worker died: %v", r.err)
		}
		var resp jsResponse
		if err := json.Unmarshal(r.line, &resp); err != nil {
			w.stop()
			return nil, fmt.Errorf("bad response from node worker: %v", err)
		}
		if resp.Fatal != "" {
			return nil, fmt.Errorf("node worker: %s", resp.Fatal)
		}
		return &resp, nil
	case <-time.After(60 * time.Second):
		w.stop()
		return nil, fmt.Errorf("node worker did not answer within 60s")
	}
}
