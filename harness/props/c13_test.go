package props

import (
	"bytes"
	"path/filepath"

	"crypto/sha256"
	"encoding/json"
	"fmt"
	"github.com/robfig/soy"
	"github.com/robfig/soy/data"
	"github.com/robfig/soy/soyhtml"
	"os"
	"os/exec"
	"sort"
	"strings"
	"testing"

	"github.com/robfig/soy/ast"
	"github.com/robfig/soy/soyjs"
	"pgregory.net/rapid"

	"verif/harness/gen"
	"verif/harness/ref"
)

// C13: compilation and code generation are deterministic functions of the
// sources. The artefact of a bundle (accept/reject + error text, message ids
// and placeholder names, rendered outputs, generated JavaScript per file under
// both formatters with and without a message bundle) must be identical over
// repeated compilations in one process (Go re-randomises map iteration per
// loop), in child processes, and under every permutation of file order.

type C13Case struct {
	Prog      gen.ProgCase `json:"prog"`
	BreakFile int          `json:"break_file"` // >= 0: one compile error injected into that file
	BreakKind int          `json:"break_kind,omitempty"`
	// DupGlobals: the same globals are added to the bundle twice
	DupGlobals bool `json:"dup_globals,omitempty"`
	// CaseTwins: two further files define templates whose names differ in case only
	CaseTwins bool `json:"case_twins,omitempty"`
	// SplitGlobals: the globals are given as two maps, the same two at every compilation of the case
	SplitGlobals bool `json:"split_globals,omitempty"`
	// JSFail > 0: file (JSFail-1) gets a template that compiles but has no JavaScript translation
	JSFail int `json:"js_fail,omitempty"`
	// SyntaxErrors: files that get an (independent) syntax error each. With two or more, the error text
	// may depend on the file order - but never on the repetition or the process.
	SyntaxErrors []int `json:"syntax_errors,omitempty"`
	// TrickyKeys: the first file also gets a template with a map literal whose keys are hard to order:
	// bytes that are not UTF-8, characters inside and outside the BMP, prefixes of each other.
	TrickyKeys bool `json:"tricky_keys,omitempty"`
}

const c13TrickyKeys = "\n/** */\n{template .zzKeys}{let $zzm: ['k\xfe': 1, 'k\xff': 2, 'k': 3, 'kz': 4, '\xc3': 5, '\xe9': 6, 'é': 7, '～': 8, '𐀀': 9, 'K': 10, '': 11, 'k\xfd\xfe': 12] /}{$zzm['kz']}{$zzm['k']}{foreach $zzk in keys($zzm)}{$zzk},{/foreach}{/template}\n"

func placeholderNames(m *ast.MsgNode) string {
	var names []string
	var walk func(n ast.Node)
	walk = func(n ast.Node) {
		switch n := n.(type) {
		case *ast.MsgPlaceholderNode:
			names = append(names, "ph:"+n.Name+"="+n.Body.String())
			return
		case *ast.MsgPluralNode:
			names = append(names, "plural:"+n.VarName)
		}
		if p, ok := n.(ast.ParentNode); ok {
			for _, c := range p.Children() {
				if c != nil {
					walk(c)
				}
			}
		}
	}
	for _, c := range m.Body.Children() {
		walk(c)
	}
	return strings.Join(names, phSep)
}

var c13TwoMaps map[uint64]*[2]data.Map

// phSep separates the entries of placeholderNames (a character no template text contains).
const phSep = "\x1f"

// artefact compiles the files in the given order and returns a canonical text of everything observable.
func artefact(c C13Case, order []int) (art string, imports int, suffixed bool) {
	art, imports, suffixed, _ = artefact2(c, order)
	return
}

// artefact2 also reports whether generating or rendering a second time from the same compiled bundle
// (in the opposite order, after everything else was generated) reproduces the first result.
func artefact2(c C13Case, order []int) (art string, imports int, suffixed bool, repeatErr error) {
	names, srcs := gen.Sources(&c.Prog.Prog)
	if c.BreakFile >= 0 && c.BreakFile < len(srcs) {
		switch c.BreakKind {
		case 1, 2:
			// the missing callee has namesakes in every other file (in other namespaces), and the one
			// error's text must not depend on which of them the compiler meets first
			call := "{call .zzCand /}"
			if c.BreakKind == 2 {
				call = "{call zz.nowhere.zzCand /}"
			}
			srcs[c.BreakFile] += "\n/** */\n{template .zzBroken}" + call + "{/template}\n"
			seenNS := map[string]bool{c.Prog.Prog.Files[c.BreakFile].Namespace: true}
			for k := range srcs {
				if ns := c.Prog.Prog.Files[k].Namespace; !seenNS[ns] {
					seenNS[ns] = true // (one namesake per namespace: a template defined twice is another error)
					srcs[k] += "\n/** @param? zzUndeclared */\n{template .zzCand}{$zzUndeclared ?: 'c'}{/template}\n"
				}
			}
		case 3:
			// an undeclared name that other templates, in other files, do declare
			srcs[c.BreakFile] += "\n/** */\n{template .zzBroken}{$zzUndeclared}{/template}\n"
			seenNS := map[string]bool{c.Prog.Prog.Files[c.BreakFile].Namespace: true}
			for k := range srcs {
				if ns := c.Prog.Prog.Files[k].Namespace; !seenNS[ns] {
					seenNS[ns] = true
					srcs[k] += "\n/** @param? zzUndeclared */\n{template .zzCand}{$zzUndeclared ?: 'c'}{/template}\n"
				}
			}
		case 9:
			// ... names that nothing declares, as the values of one map literal
			srcs[c.BreakFile] += "\n/** */\n{template .zzBroken}{['a': $title, 'b': $body, 'c': $footer, 'd': $aside]}{/template}\n"
		case 10:
			// ... globals that nothing defines, as the values of one map literal
			srcs[c.BreakFile] += "\n/** */\n{template .zzBroken}{['a': zz.NO_A, 'b': zz.NO_B, 'c': zz.NO_C, 'd': zz.NO_D]}{/template}\n"
		case 8:
			// (two further files define one template: see below)
		case 4:
			// one error that names several things at once: required params that a call leaves out
			srcs[c.BreakFile] += "\n/** */\n{template .zzBroken}{call .zzNeeds /}{/template}\n/**\n * @param title\n * @param body\n * @param footer\n * @param aside\n */\n{template .zzNeeds}{$title}{$body}{$footer}{$aside}{/template}\n"
		case 5:
			// ... params that the callee does not declare
			srcs[c.BreakFile] += "\n/** */\n{template .zzBroken}{call .zzNeeds}{param title: 1 /}{param body: 2 /}{param footer: 3 /}{param aside: 4 /}{/call}{/template}\n/** */\n{template .zzNeeds}x{/template}\n"
		case 6:
			// ... params that the template does not use
			srcs[c.BreakFile] += "\n/**\n * @param title\n * @param body\n * @param footer\n * @param aside\n */\n{template .zzBroken}x{/template}\n"
		case 7:
			// ... names that nothing declares
			srcs[c.BreakFile] += "\n/** */\n{template .zzBroken}{$title}{$body}{$footer}{$aside}{/template}\n"
		default:
			srcs[c.BreakFile] += "\n/** */\n{template .zzBroken}{call .zzNoSuchTemplate /}{/template}\n"
		}
	}
	if c.TrickyKeys && len(srcs) > 0 {
		srcs[0] += c13TrickyKeys
	}
	if c.JSFail > 0 && len(srcs) > 0 {
		// a template the JavaScript generator cannot translate (range() outside a loop header), failing in
		// the middle of an expression: the failure is part of the result, and it leaves nothing behind
		srcs[(c.JSFail-1)%len(srcs)] += "\n/** @param? a */\n{template .zzJsFail}{let $r: ($a ?: 1) + length(range(3)) /}{$r}{foreach $x in [[$a, 2], range(2)]}{$x[0] + length(range(1))}{/foreach}{/template}\n"
	}
	for _, k := range c.SyntaxErrors { // independent syntax errors in several files
		if k >= 0 && k < len(srcs) {
			srcs[k] += fmt.Sprintf("\n/** */\n{template .zzSyntax%d}{if}broken %d{/template}\n", k, k)
		}
	}
	on, os_ := make([]string, len(order)), make([]string, len(order))
	for i, k := range order {
		on[i], os_[i] = names[k], srcs[k]
	}
	if c.BreakFile >= 0 && c.BreakKind == 8 {
		// one template defined in two further files (their order follows the permutation of the others):
		// one error, whichever of the two files the compiler meets first
		d1, d2 := "zzdup1.soy", "zzdup2.soy"
		if len(order) > 1 && order[0] > order[1] {
			d1, d2 = d2, d1
		}
		on = append(on, d1, d2)
		os_ = append(os_, "{namespace zz.dup}\n/** */\n{template .same}"+d1+"{/template}\n", "{namespace zz.dup}\n/** */\n{template .same}"+d2+"{/template}\n")
	}
	if c.CaseTwins {
		// two more files of one namespace, with templates whose names differ in case only (two templates,
		// not one defined twice); their place follows the permutation of the others
		d1, d2 := "zzcase1.soy", "zzcase2.soy"
		s1, s2 := "{namespace zz.cases}\n/** */\n{template .Item}upper{msg desc=\"d\"}Item{/msg}{msg meaning=\"ab\" desc=\"d\"}c{/msg}{msg meaning=\"verb\" desc=\"d\"}Archive{/msg}{/template}\n", "{namespace zz.cases}\n/** */\n{template .item}lower{msg desc=\"d\"}item{/msg}{msg meaning=\"a\" desc=\"d\"}bc{/msg}{msg desc=\"d\"}verbArchive{/msg}{msg desc=\"d\"}abc{/msg}{/template}\n"
		if len(order) > 1 && order[0] > order[1] {
			d1, d2, s1, s2 = d2, d1, s2, s1
		}
		on = append(on, d1, d2)
		os_ = append(os_, s1, s2)
	}
	var b strings.Builder
	if c.DupGlobals {
		// the application adds its table of globals twice (several names collide at once): one rejection,
		// one text
		var derr error
		if p := catch(func() {
			bd := soy.NewBundle()
			for i := range on {
				bd.AddTemplateString(on[i], os_[i])
			}
			m := toDataMap(gen.MsgGlobals)
			_, derr = bd.AddGlobalsMap(m).AddGlobalsMap(m).Compile()
		}); p != nil {
			return fmt.Sprintf("panic: %v", p), 0, false, nil
		}
		if derr == nil {
			return "accept (globals defined twice)", 0, false, nil
		}
		return "reject: " + derr.Error(), 0, false, nil
	}
	if c.SplitGlobals && len(c.Prog.Prog.Globals) > 0 {
		// the globals as two maps that the application keeps and gives to every compilation of this case
		// (application-wide ones and the ones of this deployment)
		key := hashCase(c)
		two := c13TwoMaps[key]
		if two == nil {
			two = &[2]data.Map{{}, {}}
			for i, k := range ref.SortedKeys(c.Prog.Prog.Globals) {
				two[i%2][k] = toDataMap(map[string]ref.Value{k: c.Prog.Prog.Globals[k]})[k]
			}
			c13TwoMaps = map[uint64]*[2]data.Map{key: two} // (the current case only)
		}
		globalsInTwoMaps = two
		defer func() { globalsInTwoMaps = nil }()
	}
	cb, err, pn := compileBundle(on, os_, c.Prog.Prog.Globals)
	if c13Dir != "" {
		cb, err, pn = compileDir(c13Dir, on, os_, c.Prog.Prog.Globals)
		defer func() { art = strings.ReplaceAll(art, c13Dir+string(filepath.Separator), "") }()
	}
	if pn != nil {
		return fmt.Sprintf("panic: %v", pn), 0, false, nil
	}
	if err != nil {
		return "reject: " + err.Error(), 0, false, nil
	}
	b.WriteString("accept\n")
	// message ids and placeholder names, by template
	var lines []string
	for _, t := range cb.reg.Templates {
		i := 0
		collectMsgs(t.Node, func(m *ast.MsgNode) {
			lines = append(lines, fmt.Sprintf("%s#%d id=%d %s", t.Node.Name, i, m.ID, placeholderNames(m)))
			if strings.Contains(placeholderNames(m), "_1=") || strings.Contains(placeholderNames(m), "_2=") {
				suffixed = true
			}
			i++
		})
	}
	sort.Strings(lines)
	b.WriteString(strings.Join(lines, "\n") + "\n")
	// rendered output of every template
	var fqs []string
	for fq := range c.Prog.AllData {
		fqs = append(fqs, fq)
	}
	if c.TrickyKeys && len(c.Prog.Prog.Files) > 0 {
		fqs = append(fqs, c.Prog.Prog.Files[0].Namespace+".zzKeys") // (the order of keys() is part of the output)
	}
	sort.Strings(fqs)
	msgs := identityBundle(cb)
	first := map[string]string{}
	for _, fq := range fqs {
		rr := cb.render(fq, c.Prog.AllData[fq], c.Prog.IJ, c.Prog.HasIJ)
		first["render "+fq] = fmt.Sprintf("%q err=%v", rr.out, rr.err != nil)
		fmt.Fprintf(&b, "render %s: %q err=%v\n", fq, rr.out, rr.err != nil)
	}
	// generated JavaScript
	files := append([]*ast.SoyFileNode{}, cb.reg.SoyFiles...)
	sort.Slice(files, func(i, j int) bool { return files[i].Name < files[j].Name })
	for _, f := range files {
		for fi, formatter := range []soyjs.JSFormatter{&soyjs.ES5Formatter{}, &soyjs.ES6Formatter{}} {
			for bi, withMsgs := range []bool{false, true} {
				opts := soyjs.Options{Formatter: formatter}
				if withMsgs {
					opts.Messages = msgs
				}
				var buf bytes.Buffer
				var jerr error
				p := catch(func() { jerr = soyjs.Write(&buf, f, opts) })
				first[fmt.Sprintf("js %s formatter=%d msgs=%d", f.Name, fi, bi)] = fmt.Sprintf("err=%v panic=%v\n%s", jerr, p, buf.String())
				fmt.Fprintf(&b, "js %s formatter=%d msgs=%d err=%v panic=%v\n%s\n", f.Name, fi, bi, jerr, p, buf.String())
				if fi == 1 {
					if n := strings.Count(buf.String(), "\nimport ") + strings.Count(buf.String()[:min(7, buf.Len())], "import "); n > imports {
						imports = n
					}
				}
			}
		}
	}
	// second use of the same compiled bundle, everything in the opposite order
	for i := len(files) - 1; i >= 0 && repeatErr == nil; i-- {
		formatters := []soyjs.JSFormatter{&soyjs.ES5Formatter{}, &soyjs.ES6Formatter{}}
		for fi := 1; fi >= 0; fi-- {
			for bi := 1; bi >= 0; bi-- {
				opts := soyjs.Options{Formatter: formatters[fi]}
				if bi == 1 {
					opts.Messages = msgs
				}
				var buf bytes.Buffer
				var jerr error
				p := catch(func() { jerr = soyjs.Write(&buf, files[i], opts) })
				key := fmt.Sprintf("js %s formatter=%d msgs=%d", files[i].Name, fi, bi)
				if again := fmt.Sprintf("err=%v panic=%v\n%s", jerr, p, buf.String()); again != first[key] && repeatErr == nil {
					repeatErr = fmt.Errorf("generating [%s] a second time from the same compiled bundle gave different JavaScript; first difference at %s", key, firstDiff(first[key], again))
				}
			}
		}
	}
	for i := len(fqs) - 1; i >= 0 && repeatErr == nil; i-- {
		rr := cb.render(fqs[i], c.Prog.AllData[fqs[i]], c.Prog.IJ, c.Prog.HasIJ)
		if again := fmt.Sprintf("%q err=%v", rr.out, rr.err != nil); again != first["render "+fqs[i]] {
			repeatErr = fmt.Errorf("rendering %s again after JavaScript generation gave %s, before it gave %s", fqs[i], again, first["render "+fqs[i]])
		}
	}
	return b.String(), imports, suffixed, repeatErr
}

// c13Dir, when set, makes artefact2 load the sources from files in that directory (AddTemplateDir,
// AddGlobalsFile) instead of from strings.
var c13Dir string

func compileDir(dir string, names, srcs []string, globals map[string]ref.Value) (c *compiled, err error, panicked interface{}) {
	os.RemoveAll(dir)
	for i := range names {
		p := filepath.Join(dir, names[i])
		os.MkdirAll(filepath.Dir(p), 0o755)
		if werr := os.WriteFile(p, []byte(srcs[i]), 0o644); werr != nil {
			return nil, nil, fmt.Sprintf("harness: cannot write %s: %v", p, werr)
		}
	}
	defer os.RemoveAll(dir)
	panicked = catch(func() {
		b := soy.NewBundle().AddTemplateDir(dir)
		if len(globals) > 0 {
			var gf strings.Builder
			for _, k := range ref.SortedKeys(globals) {
				fmt.Fprintf(&gf, "%s = %s\n", k, gen.PrintExpr(gen.Lit(globals[k])))
			}
			gp := filepath.Join(dir, "globals.txt")
			os.WriteFile(gp, []byte(gf.String()), 0o644)
			b.AddGlobalsFile(gp)
		}
		reg, e := b.Compile()
		if e != nil {
			err = e
			return
		}
		c = &compiled{soyhtml.NewTofu(reg), reg}
	})
	return
}

func sum(s string) string { return fmt.Sprintf("%x", sha256.Sum256([]byte(s)))[:16] }

func identityOrder(n int) []int {
	o := make([]int, n)
	for i := range o {
		o[i] = i
	}
	return o
}

func permutations(n int) [][]int {
	if n > 4 {
		// sampled: rotations and the reversal
		var out [][]int
		for r := 0; r < n; r++ {
			o := make([]int, n)
			for i := range o {
				o[i] = (i + r) % n
			}
			out = append(out, o)
		}
		rev := make([]int, n)
		for i := range rev {
			rev[i] = n - 1 - i
		}
		return append(out, rev)
	}
	var out [][]int
	var rec func(cur []int, used []bool)
	rec = func(cur []int, used []bool) {
		if len(cur) == n {
			out = append(out, append([]int{}, cur...))
			return
		}
		for i := 0; i < n; i++ {
			if !used[i] {
				used[i] = true
				rec(append(cur, i), used)
				used[i] = false
			}
		}
	}
	rec(nil, make([]bool, n))
	return out
}

func firstDiff(a, b string) string {
	la, lb := strings.Split(a, "\n"), strings.Split(b, "\n")
	for i := 0; i < len(la) && i < len(lb); i++ {
		if la[i] != lb[i] {
			return fmt.Sprintf("line %d:\n   %s\n   %s", i+1, trunc(la[i], 300), trunc(lb[i], 300))
		}
	}
	return fmt.Sprintf("lengths %d vs %d lines", len(la), len(lb))
}

var c13rec *recorder

func checkC13(c C13Case) Verdict {
	n := len(c.Prog.Prog.Files)
	base, imports, suffixed, repErr := artefact2(c, identityOrder(n))
	if strings.HasPrefix(base, "panic") {
		return bad(true, "compile panicked: %s", base)
	}
	names, srcs := gen.Sources(&c.Prog.Prog)
	if strings.Contains(base, recompilePrefix) {
		return bad(true, "%s\n%s", base, showSources(names, srcs))
	}
	if repErr != nil {
		return bad(true, "%v\n%s", repErr, showSources(names, srcs))
	}
	reps := scale(12, 30)
	for i := 0; i < reps; i++ {
		if again, _, _ := artefact(c, identityOrder(n)); again != base {
			return bad(true, "repetition %d in the same process produced a different artefact; first difference at %s\n%s", i+1, firstDiff(base, again), showSources(names, srcs))
		}
	}
	for _, o := range permutations(n) {
		if perm, _, _ := artefact(c, o); perm != base {
			if len(c.SyntaxErrors)+b2i(c.BreakFile >= 0) >= 2 && strings.HasPrefix(perm, "reject") && strings.HasPrefix(base, "reject") {
				continue // which of several independent errors is reported first may depend on the order
			}
			return bad(true, "file order %v produced a different artefact; first difference at %s\n%s", o, firstDiff(base, perm), showSources(names, srcs))
		}
	}
	// the same sources loaded from a directory of files
	if len(c.SyntaxErrors)+b2i(c.BreakFile >= 0) < 2 {
		c13Dir = filepath.Join(outDir(), "c13-dir-"+shard())
		fromDir, _, _, _ := artefact2(c, identityOrder(n))
		c13Dir = ""
		if fromDir != base {
			return bad(true, "the sources loaded from a directory (AddTemplateDir / AddGlobalsFile) produce a different artefact than the same sources added as strings; first difference at %s\n%s", firstDiff(base, fromDir), showSources(names, srcs))
		}
	}
	// the same directory of files on a file system that lists its entries in the order of their creation
	// (tmpfs), written once in one order and once in the reverse: AddTemplateDir is given the same
	// sources both times - whichever of several errors it reports, it reports the same one
	if st, serr := os.Stat("/dev/shm"); n >= 2 && serr == nil && st.IsDir() && !(c.BreakFile >= 0 && c.BreakKind == 8) && !c.DupGlobals {
		c13Dir = filepath.Join("/dev/shm", fmt.Sprintf("verif-c13-%d-%s", os.Getpid(), shard()))
		rev := make([]int, n)
		for i := range rev {
			rev[i] = n - 1 - i
		}
		a1, _, _, _ := artefact2(c, identityOrder(n))
		a2, _, _, _ := artefact2(c, rev)
		os.RemoveAll(c13Dir)
		c13Dir = ""
		if a1 != a2 {
			return bad(true, "a directory of the same files (AddTemplateDir), created on disk in another order on a file system that lists entries in creation order, compiles to another result; first difference at %s\n%s", firstDiff(a1, a2), showSources(names, srcs))
		}
		if c13rec != nil {
			c13rec.add("directory_order_pairs", 1)
		}
	}
	// child processes (a fresh hash seed, fresh init order)
	children := 0
	if os.Getenv("VERIF_C13_CHILD") == "" {
		b, _ := json.Marshal(c)
		h := hashCase(c)
		if h%uint64(scale(6, 2)) == 0 { // a deterministic share of the cases
			f, err := os.CreateTemp(outDir(), "c13-*.json")
			if err == nil {
				f.Write(b)
				f.Close()
				defer os.Remove(f.Name())
				for k := 0; k < 2; k++ {
					cmd := exec.Command(os.Args[0], "-test.run", "^TestC13Child$")
					cmd.Env = append(os.Environ(), "VERIF_C13_CHILD="+f.Name())
					out, err := cmd.Output()
					if err != nil {
						return excluded("child process failed to run")
					}
					i := strings.Index(string(out), "ARTEFACT-SUM ")
					if i < 0 {
						return excluded("child process printed no digest")
					}
					got := strings.Fields(string(out)[i:])[1]
					children++
					if got != sum(base) {
						return bad(true, "a child process produced a different artefact (digest %s vs %s)\n%s", got, sum(base), showSources(names, srcs))
					}
				}
			}
		}
	}
	if c13rec != nil {
		c13rec.add("in_process_repetitions", reps)
		c13rec.add("file_order_permutations", len(permutations(n)))
		c13rec.add("child_processes", children)
	}
	maplit := false
	st := statsOf(&c.Prog.Prog)
	_ = st
	for _, s := range srcs {
		if strings.Contains(s, "': ") && strings.Contains(s, ", '") {
			maplit = true
		}
	}
	// the watch tier: what a recompilation triggered by a file change installs (a few cases per process)
	if os.Getenv("VERIF_C13_CHILD") == "" && strings.HasPrefix(base, "accept") && hashCase(c)%5 == 0 {
		verr, why := c13Watch(c)
		if verr != nil {
			return bad(true, "%v", verr)
		}
		if c13rec != nil {
			switch why {
			case "":
				c13rec.add("watch_recompilations_compared", 1)
			case "n/a":
			default:
				c13rec.add("watch_inconclusive: "+why, 1)
			}
		}
	}
	v := ok(imports >= 2 || suffixed || maplit, fmt.Sprintf("files:%d", n))
	if imports >= 2 {
		v.Classes = append(v.Classes, "es6-imports>=2")
	}
	if suffixed {
		v.Classes = append(v.Classes, "suffixed-placeholders")
	}
	if maplit {
		v.Classes = append(v.Classes, "map-literal>=2-keys")
	}
	if strings.HasPrefix(base, "reject") {
		v.Classes = append(v.Classes, "rejected")
	}
	return v
}

func genC13(t *rapid.T) C13Case {
	custom := rapid.IntRange(0, 2).Draw(t, "custom") == 0
	g := &gen.G{T: t, P: gen.Profile{HTMLChars: true, Directives: true, Common: true, Custom: custom, CustomAlias: custom}}
	pc := gen.GenProgram(g, gen.ProgOpts{MaxTemplates: 6, MaxDepth: 3, MaxCmds: 4, ExprDepth: 2, PosWeight: 2, CallWeight: 14, MinTemplates: 3, AllData: true, MsgStress: 60, MsgWeight: 6, NoLog: true})
	c := C13Case{Prog: pc, BreakFile: -1, TrickyKeys: rapid.IntRange(0, 2).Draw(t, "trickyKeys") == 0}
	if rapid.IntRange(0, 4).Draw(t, "break") == 0 {
		c.BreakFile = rapid.IntRange(0, len(pc.Prog.Files)-1).Draw(t, "breakFile")
		c.BreakKind = rapid.IntRange(0, 10).Draw(t, "breakKind")
	}
	c.DupGlobals = rapid.IntRange(0, 19).Draw(t, "dupGlobals") == 0
	c.SplitGlobals = rapid.IntRange(0, 3).Draw(t, "splitGlobals") == 2
	c.CaseTwins = rapid.IntRange(0, 4).Draw(t, "caseTwins") == 3
	if rapid.IntRange(0, 5).Draw(t, "jsFail") == 0 {
		c.JSFail = 1 + rapid.IntRange(0, len(pc.Prog.Files)-1).Draw(t, "jsFailFile")
	}
	if rapid.IntRange(0, 5).Draw(t, "syntax") == 0 {
		for i := range pc.Prog.Files {
			if rapid.IntRange(0, 2).Draw(t, "syntaxIn") > 0 {
				c.SyntaxErrors = append(c.SyntaxErrors, i)
			}
		}
	}
	return c
}

func TestC13(t *testing.T) {
	recompileCheck = true
	defer func() { recompileCheck = false }()
	c13rec = newRecorder("C13x")
	defer c13rec.flush()
	runProp(t, "C13", genC13, checkC13)
}

// TestC13Child prints the artefact digest of the case named by VERIF_C13_CHILD.
func TestC13Child(t *testing.T) {
	p := os.Getenv("VERIF_C13_CHILD")
	if p == "" {
		t.Skip("helper for TestC13")
	}
	var c C13Case
	if err := loadCase(p, &c); err != nil {
		t.Fatal(err)
	}
	art, _, _ := artefact(c, identityOrder(len(c.Prog.Prog.Files)))
	fmt.Printf("ARTEFACT-SUM %s\n", sum(art))
}

var _ = ref.OK

func b2i(b bool) int {
	if b {
		return 1
	}
	return 0
}
