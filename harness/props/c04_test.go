package props

import (
	"bytes"
	"fmt"
	"github.com/robfig/soy/soymsg"
	"os"
	"sort"
	"strings"
	"testing"

	"github.com/robfig/soy/soyjs"
	"pgregory.net/rapid"

	"verif/harness/gen"
	"verif/harness/ref"
)

// C04: the Go renderer and the generated JavaScript produce the same output.
// Every generated program of the common subset is translated by soyjs.Write
// and the translation is validated by executing it in node with the same data.

// jsSources generates the JavaScript of every file of a compiled bundle.
func jsSources(cb *compiled, opts soyjs.Options, module bool) ([]jsFile, error) {
	var files []jsFile
	for _, f := range cb.reg.SoyFiles {
		var buf bytes.Buffer
		var err error
		if p := catch(func() {
			if opts.Messages == nil && opts.Formatter == nil && len(f.Text)%2 == 0 {
				// the other public way to the same text
				err = soyjs.NewGenerator(cb.reg).WriteFile(&buf, f.Name)
				return
			}
			err = soyjs.Write(&buf, f, opts)
		}); p != nil {
			return nil, fmt.Errorf("soyjs.Write panicked on %s: %v", f.Name, p)
		}
		if err != nil {
			return nil, fmt.Errorf("soyjs.Write failed on %s: %v", f.Name, err)
		}
		files = append(files, jsFile{Name: f.Name + ".js", Src: buf.String(), Module: module})
	}
	return files, nil
}

func showJS(files []jsFile) string {
	var b strings.Builder
	for _, f := range files {
		fmt.Fprintf(&b, "--- %s ---\n%s\n", f.Name, f.Src)
	}
	return b.String()
}

var c04rec *recorder

func checkC04(c gen.ProgCase) Verdict {
	names, srcs := gen.Sources(&c.Prog)
	want := ref.Render(&c.Prog, c.Entry, c.Data, c.IJ, c.HasIJ)
	witness := os.Getenv("VERIF_WITNESS") != "" // replay of a known finding's witness: Go vs JS only, no exclusions
	switch {
	case witness:
	case want.Status == ref.Unspecified:
		return excluded("unspecified: " + firstWords(want.Msg, 4))
	case want.Status == ref.Valueless:
		return excluded("outside the subset both backends define (the Go render fails)")
	}
	// known finding F14 (truncate counts UTF-16 units in JavaScript, characters in Go): a difference
	// between the backends in a program that truncates and has characters outside the BMP is put down to
	// it (and counted); such programs are still judged when the backends agree
	f14 := !witness && findingOpen("F14") && hasAstral(fmt.Sprint(srcs, c.Data, c.IJ, c.Prog.Globals)) && strings.Contains(strings.Join(srcs, ""), "truncate")
	cb, err, pn := compileBundle(names, srcs, c.Prog.Globals)
	if err != nil || pn != nil {
		return excluded("does not compile (C01/C02 matter)")
	}
	rr := cb.render(c.Entry, c.Data, c.IJ, c.HasIJ)
	if rr.err != nil || rr.panicked != nil {
		return excluded("the Go render fails where the language defines output (C01/C02 matter)")
	}
	// (a Go output that differs from the reference is C01/C02's to report; this check still compares
	// the two backends with each other)
	goDiffers := !witness && ref.CanonRefs(rr.out) != ref.CanonRefs(want.Out)
	files, err := jsSources(cb, soyjs.Options{}, false)
	if err != nil {
		return bad(true, "%v\n%s", err, showSources(names, srcs))
	}
	var ij interface{}
	if c.HasIJ {
		ij = toJSONMap(c.IJ)
	}
	resp, err := theNode.do(jsRequest{Files: append([]jsFile{jsCustomPrelude}, files...), Calls: []jsCall{{Name: c.Entry, Data: toJSONMap(c.Data), IJ: ij}}})
	if err == nil && len(resp.Load) > 0 {
		resp.Load = resp.Load[1:]
	}
	if err != nil {
		return excluded("infra: " + err.Error())
	}
	if c04rec != nil {
		c04rec.add("programs_translated", 1)
	}
	for i, l := range resp.Load {
		if l != nil {
			return bad(true, "generated JavaScript for %s does not load: %s\n%s\n%s", files[i].Name, *l, showSources(names, srcs), files[i].Src)
		}
	}
	r := resp.Results[0]
	if !r.OK {
		return bad(true, "the generated function threw %s; the Go renderer writes %q\n%s data=%v\n%s", r.Error, rr.out, showSources(names, srcs), c.Data, showJS(files))
	}
	if c04rec != nil {
		c04rec.add("outputs_compared", 1)
	}
	if ref.CanonRefs(r.Out) != ref.CanonRefs(rr.out) && f14 {
		return excluded("known finding F14: truncate of characters outside the BMP")
	}
	if ref.CanonRefs(r.Out) != ref.CanonRefs(rr.out) {
		note := ""
		if goDiffers {
			note = fmt.Sprintf(" (the language defines %q)", want.Out)
		}
		return bad(true, "outputs differ%s\n js %q\n go %q\n%s data=%v ij=%v\n%s", note, r.Out, rr.out, showSources(names, srcs), c.Data, c.IJ, showJS(files))
	}
	// both backends work from one compiled bundle: generating the JavaScript must leave the Go
	// renderer's output as it was, and a second generation must give the same text
	if rr2 := cb.render(c.Entry, c.Data, c.IJ, c.HasIJ); rr2.out != rr.out || (rr2.err != nil) != (rr.err != nil) {
		return bad(true, "after the JavaScript was generated from the same compiled bundle the Go renderer writes %q (error %v); before it wrote %q - and that is what the JavaScript returns\n%s data=%v", rr2.out, rr2.err, rr.out, showSources(names, srcs), c.Data)
	}
	if files2, err := jsSources(cb, soyjs.Options{}, false); err == nil {
		for i := range files2 {
			if files2[i].Src != files[i].Src {
				return bad(true, "a second generation of %s from the same compiled bundle differs from the first; first difference at %s\n%s", files[i].Name, firstDiff(files[i].Src, files2[i].Src), showSources(names, srcs))
			}
		}
	}
	st := statsOf(&c.Prog)
	// the same with a translation bundle (marked translations of every non-plural message)
	if st.msgs > 0 {
		msgs := identityBundle(cb)
		if hashCase(c)%3 == 0 {
			// a catalogue with holes: every other entry is empty (no parts at all, or an empty plural form)
			var ids []uint64
			for id := range msgs.msgs {
				ids = append(ids, id)
			}
			sort.Slice(ids, func(i, j int) bool { return ids[i] < ids[j] })
			for k, id := range ids {
				m := msgs.msgs[id]
				if k%2 == 1 {
					continue
				}
				if len(m.Parts) == 1 {
					if pp, isPl := m.Parts[0].(soymsg.PluralPart); isPl && len(pp.Cases) > 0 {
						pp.Cases[len(pp.Cases)-1].Parts = nil
						continue
					}
				}
				m.Parts = nil
			}
		}
		var gbuf bytes.Buffer
		var gerr error
		if p := catch(func() {
			rd := cb.tofu.NewRenderer(c.Entry).WithMessages(msgs)
			if c.HasIJ {
				rd = rd.Inject(toDataMap(c.IJ))
			}
			gerr = rd.Execute(&gbuf, toDataMap(c.Data))
		}); p != nil || gerr != nil {
			return bad(true, "Go render with a message bundle failed: %v %v\n%s", p, gerr, showSources(names, srcs))
		}
		mfiles, err := jsSources(cb, soyjs.Options{Messages: msgs}, false)
		if err != nil {
			return bad(true, "%v\n%s", err, showSources(names, srcs))
		}
		mresp, err := theNode.do(jsRequest{Files: append([]jsFile{jsCustomPrelude}, mfiles...), Plural: "one-other", Calls: []jsCall{{Name: c.Entry, Data: toJSONMap(c.Data), IJ: ij}}})
		if err == nil && len(mresp.Load) > 0 {
			mresp.Load = mresp.Load[1:]
		}
		if err != nil {
			return excluded("infra: " + err.Error())
		}
		for i, l := range mresp.Load {
			if l != nil {
				return bad(true, "generated JavaScript (with a message bundle) for %s does not load: %s\n%s", mfiles[i].Name, *l, mfiles[i].Src)
			}
		}
		if mr := mresp.Results[0]; (!mr.OK || ref.CanonRefs(mr.Out) != ref.CanonRefs(gbuf.String())) && f14 {
			return excluded("known finding F14: truncate of characters outside the BMP")
		} else if !mr.OK || ref.CanonRefs(mr.Out) != ref.CanonRefs(gbuf.String()) {
			return bad(true, "outputs differ with a message bundle\n js %q (error %q)\n go %q\n%s data=%v\n%s", mr.Out, mr.Error, gbuf.String(), showSources(names, srcs), c.Data, showJS(mfiles))
		}
		if c04rec != nil {
			c04rec.add("outputs_compared_with_bundle", 1)
		}
	}
	control := st.calls+st.ifs+st.loops+st.switches > 0
	v := ok(control && st.prints > 0 && len(c.Data) > 0)
	add := func(cond bool, name string) {
		if cond {
			v.Classes = append(v.Classes, name)
		}
	}
	add(st.calls > 0, "call")
	add(st.loops > 0, "loop")
	add(st.msgs > 0, "msg")
	add(st.lets > 0, "let")
	add(st.dataAll > 0, "data=all")
	add(len(c.Prog.Files) > 1, "multi-file")
	add(want.Shadows > 0, "executed-shadowing")
	return v
}

func genC04(t *rapid.T) gen.ProgCase {
	g := &gen.G{T: t, P: gen.Profile{Common: true, Unicode: true, HTMLChars: true, Directives: true, Custom: rapid.IntRange(0, 3).Draw(t, "custom") == 0}}
	return gen.GenProgram(g, gen.ProgOpts{MaxTemplates: scale(4, 6), MaxDepth: scale(3, 4), MaxCmds: 4, ExprDepth: 2, PosWeight: 6, ScopeWeight: 8, CallWeight: 8, MinTemplates: 1, NumStress: 6})
}

func TestC04(t *testing.T) {
	fileRoute = true
	defer func() { fileRoute = false }()
	c04rec = newRecorder("C04x")
	defer c04rec.flush()
	defer theNode.stop()
	runProp(t, "C04", genC04, checkC04)
}

func hasAstral(s string) bool {
	for _, r := range s {
		if r > 0xFFFF {
			return true
		}
	}
	return false
}
