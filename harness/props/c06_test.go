package props

import (
	"github.com/robfig/soy/data"
	"io"
	"log"
	"os"
	"time"
	"bytes"
	"fmt"
	"github.com/robfig/soy/ast"
	"github.com/robfig/soy/soymsg"
	"strings"
	"testing"

	"github.com/robfig/soy"
	"github.com/robfig/soy/parse"
	"github.com/robfig/soy/soyhtml"
	"pgregory.net/rapid"

	"verif/harness/gen"
	"verif/harness/ref"
)

// C06: rendering any compiled bundle with any data, evaluating a standalone
// expression and parsing a globals file all return normally with a result or
// an error: no panic escapes, nothing loops unboundedly on finite data.

type C06Case struct {
	Kind       string       `json:"kind"` // render | eval | globals
	Prog       gen.ProgCase `json:"prog,omitempty"`
	Obligatory []string     `json:"obligatory,omitempty"`
	Text       string       `json:"text,omitempty"` // expression source / globals file
	Mutations  int          `json:"mutations,omitempty"`
	// StaleMsgs > 0: the render uses a message bundle whose entries no longer fit the messages (a
	// catalogue translated from an older version of the templates): unknown placeholder names, plural
	// parts for messages that have none, plural parts without cases. The number selects the variants.
	StaleMsgs int `json:"stale_msgs,omitempty"`
	// Hostile > 0: the data is also handed to Tofu.Render as a Go value that holds something no Soy value
	// can be made of (a map with integer keys, a channel, a function ...): an error, never a panic
	Hostile int `json:"hostile,omitempty"`
	// Deep (kind "deep"): the depth, given as data, of a recursion through {call}
	Deep int `json:"deep,omitempty"`
}

// c06DeepBundle recurses as deep as its data says, in three ways.
const c06DeepBundle = `{namespace zd}
/** @param n */
{template .quiet}{if $n > 0}{call .quiet}{param n: $n - 1 /}{/call}{/if}{/template}
/** @param n */
{template .all}{if $n > 0}{let $m: $n - 1 /}{call .all data="['n': $m]" /}{/if}{/template}
/** @param n */
{template .block}{if $n > 0}{call .echo}{param p}{call .block}{param n: $n - 1 /}{/call}{/param}{/call}{/if}{/template}
/** @param p */
{template .echo}{$p|noAutoescape}{/template}
/** @param n */
{template .fails}{if $n > 0}{call .fails}{param n: $n - 1 /}{/call}{else}{$n % $n}{/if}{/template}
`

func c06Hostile(k int) interface{} {
	switch k % 7 {
	case 1:
		return map[int]string{1: "a"}
	case 2:
		return make(chan int)
	case 3:
		return func() {}
	case 4:
		return struct{ C chan int }{}
	case 5:
		return complex(1, 2)
	case 6:
		return map[string]interface{}{"deep": []interface{}{map[bool]int{true: 1}}}
	}
	return [2]int{1, 2}
}

// staleBundle builds the ill-fitting catalogue for the messages of a compiled bundle.
func staleBundle(cb *compiled, seed int) *mapBundle {
	b := &mapBundle{msgs: map[uint64]*soymsg.Message{}}
	k := seed
	for _, t := range cb.reg.Templates {
		collectMsgs(t.Node, func(m *ast.MsgNode) {
			k++
			var parts []soymsg.Part
			switch k % 6 {
			case 0:
				parts = []soymsg.Part{soymsg.RawTextPart{Text: "old "}, soymsg.PlaceholderPart{Name: "NO_SUCH_PLACEHOLDER"}}
			case 1:
				parts = []soymsg.Part{soymsg.PluralPart{VarName: "NO_SUCH_NUM", Cases: []soymsg.PluralCase{{Parts: []soymsg.Part{soymsg.RawTextPart{Text: "one"}}}}}}
			case 2:
				parts = []soymsg.Part{soymsg.PluralPart{VarName: "NUM"}}
			case 3:
				parts = []soymsg.Part{soymsg.RawTextPart{Text: "only text"}}
			case 4:
				parts = []soymsg.Part{soymsg.PlaceholderPart{Name: ""}, nil}
			default:
				parts = soymsg.Parts(soymsg.PlaceholderString(m))
			}
			b.msgs[m.ID] = &soymsg.Message{ID: m.ID, Parts: parts}
		})
	}
	return b
}

func genC06(t *rapid.T) C06Case {
	g := &gen.G{T: t, P: gen.Profile{Unicode: true, HTMLChars: true, BigInts: true, Directives: true}}
	if rapid.IntRange(0, 1999).Draw(t, "deep") == 1777 { // (a value in mid-range: the library favours the ends)
		return C06Case{Kind: "deep", Deep: rapid.SampledFrom([]int{10, 900, 1500, 2500, 20000, 300000, 1000000}).Draw(t, "depth"), Text: rapid.SampledFrom([]string{"quiet", "all", "block", "fails", "nested"}).Draw(t, "how")}
	}
	switch rapid.IntRange(0, 9).Draw(t, "kind") {
	case 0, 1:
		e := g.ChaosExpr([]string{"x", "ij"}, rapid.IntRange(0, 4).Draw(t, "depth"))
		return C06Case{Kind: "eval", Text: gen.PrintExpr(e)}
	case 2:
		var b strings.Builder
		// names come from a small pool (so that a name is defined twice now and then), right-hand sides
		// may name other globals, defined or not, or data
		name := func(i int) string {
			return rapid.SampledFrom([]string{"A", "B", "app.NAME", fmt.Sprintf("G%d", i), fmt.Sprintf("G%d", i)}).Draw(t, "gname")
		}
		for i, n := 0, rapid.IntRange(0, 6).Draw(t, "lines"); i < n; i++ {
			switch rapid.IntRange(0, 9).Draw(t, "line") {
			case 7:
				b.WriteString(fmt.Sprintf("%s = %s\n", name(i), rapid.SampledFrom([]string{"A", "B", "app.NAME", "app.OTHER", "$x", "$ij.y"}).Draw(t, "rhs")))
			case 8:
				b.WriteString(fmt.Sprintf("%s = [%s, 1]\n", name(i), rapid.SampledFrom([]string{"A", "B", "undefinedGlobal", "$x"}).Draw(t, "item")))
			case 9:
				b.WriteString(fmt.Sprintf("%s = %s\n", name(i), rapid.SampledFrom([]string{"1", "'s'", "1.5", "true", "null", "['k': A]", "A + 1", "not B", "'\\uD83D\\uDE00'", "'\\uD83D\\uDE'", "'\\uD83D\\u'", "'\\u12'", "'\\uD83D", "'a\\", "0x", "1e", "[1, ", "f(", "1 if", "true default", "3 log", "(1 print)", "$x in", "1 sp 2", "'a' call 'b'", "[1 case 2]", "f(1 nil)", "-٣", "(-１)", "2 * -१", "['a': -٣]", "٣ + 1", "-½"}).Draw(t, "lit")))
			case 0:
				b.WriteString("// comment\n")
			case 1:
				b.WriteString("\n")
			case 2:
				b.WriteString("no equals here\n")
			case 3:
				b.WriteString(fmt.Sprintf("%s = %s\n", name(i), gen.PrintExpr(g.ChaosExpr(nil, 2))))
			case 4:
				b.WriteString(fmt.Sprintf("%s = %s\n", name(i), gen.PrintExpr(gen.Lit(g.AnyValue(1)))))
			case 5:
				b.WriteString("G = 1\nG = 2\n")
			case 6:
				b.WriteString(" = \n=\nA==1\n")
			}
		}
		return C06Case{Kind: "globals", Text: b.String()}
	}
	pc := gen.GenProgram(g, gen.ProgOpts{MaxTemplates: 4, MaxDepth: 3, MaxCmds: 4, ExprDepth: 2, PosWeight: 4, CallWeight: 10, Valueless: true, MsgWeight: 4})
	c := C06Case{Kind: "render", Prog: pc}
	if rapid.IntRange(0, 2).Draw(t, "stale") == 0 {
		c.StaleMsgs = rapid.IntRange(1, 6).Draw(t, "staleSeed")
		c.Mutations++
	}
	if rapid.IntRange(0, 5).Draw(t, "hostile") == 0 {
		c.Hostile = rapid.IntRange(1, 7).Draw(t, "hostileKind")
	}
	c.Mutations = g.ChaosProgram(&c.Prog, rapid.SampledFrom([]int{5, 15, 40}).Draw(t, "rate"))
	// data of arbitrary shape
	for k := range c.Prog.Data {
		switch rapid.IntRange(0, 4).Draw(t, "dataMut") {
		case 0:
			delete(c.Prog.Data, k)
		case 1:
			c.Prog.Data[k] = g.AnyValue(2)
		}
	}
	if rapid.IntRange(0, 3).Draw(t, "extraData") == 0 {
		c.Prog.Data["extra"] = g.AnyValue(2)
	}
	if c.Prog.HasIJ && rapid.IntRange(0, 3).Draw(t, "dropIJ") == 0 {
		c.Prog.HasIJ, c.Prog.IJ = false, nil
	}
	if rapid.IntRange(0, 9).Draw(t, "duplicate") == 0 {
		// the entry template's name defined a second time, in a short extra file
		f, tm := c.Prog.Prog.FindTemplate(c.Prog.Entry)
		if f != nil {
			c.Prog.Prog.Files = append(c.Prog.Prog.Files, ref.File{Name: "dup.soy", Namespace: f.Namespace,
				Templates: []ref.Template{{Name: tm.Name, Body: []ref.Cmd{{K: "text", Text: "d"}}}}})
			c.Mutations++
		}
	}
	if rapid.IntRange(0, 3).Draw(t, "sameFileNames") == 0 {
		// the file name is documented as "only used for error messages": several files may share one
		name := rapid.SampledFrom([]string{"", "same.soy"}).Draw(t, "fileName")
		for i := range c.Prog.Prog.Files {
			c.Prog.Prog.Files[i].Name = name
		}
		c.Mutations++
	}
	c.Obligatory = rapid.SampledFrom([][]string{nil, nil, nil, {"noAutoescape"}, {"nope"}, {"truncate"}, {"bidiSpanWrap"}, {"escapeHtml", "id"}}).Draw(t, "obligatory")
	return c
}

func checkC06(c C06Case) Verdict {
	var (
		what     string
		err      error
		panicked interface{}
		compiles = true
	)
	run := func() {
		switch c.Kind {
		case "eval":
			what = "EvalExpr(" + c.Text + ")"
			node, perr := parse.Expr(c.Text)
			if perr != nil {
				compiles = false
				return
			}
			panicked = catch(func() { _, err = soyhtml.EvalExpr(node) })
		case "deep":
			what = fmt.Sprintf("render of zd.%s with n = %d (a recursion as deep as its data says)", c.Text, c.Deep)
			src := c06DeepBundle
			if c.Text == "nested" {
				// each level of the recursion stands inside thousands of nested blocks: few calls, much stack
				src += "/** @param n */\n{template .nested}" + strings.Repeat("{if $n >= 0}", 3000) + "{if $n > 0}{call .nested}{param n: $n - 1 /}{/call}{/if}" + strings.Repeat("{/if}", 3000) + "{/template}\n"
			}
			if c.Text == "aligned" {
				// a recursion along a linked list whose calls evaluate nothing (data="all") every other hop, with
				// c.Deep nested blocks around each call: for some number of blocks a limit on the nesting is
				// reached exactly where a called template begins
				k := c.Deep%200 + 1
				src += "/** @param? node */\n{template .aligned}" + strings.Repeat("{if $node}", k) + "{call .alignedItem}{param node: $node.next /}{/call}" + strings.Repeat("{/if}", k) + "{/template}\n" +
					"/** @param? node */\n{template .alignedItem}{call .aligned data=\"all\" /}{/template}\n"
			}
			cb, cerr, pn := compileBundle([]string{"deep.soy"}, []string{src}, nil)
			if cerr != nil || pn != nil {
				panicked = fmt.Sprintf("the harness's own bundle does not compile: %v %v", cerr, pn)
				return
			}
			var buf bytes.Buffer
			if c.Text == "aligned" {
				var list data.Value = data.Null{}
				for i := 0; i < 1200; i++ {
					list = data.Map{"next": list, "i": data.Int(i)}
				}
				panicked = catch(func() { err = cb.tofu.NewRenderer("zd.aligned").Execute(&buf, data.Map{"node": list}) })
				return
			}
			panicked = catch(func() { err = cb.tofu.Render(&buf, "zd."+c.Text, map[string]interface{}{"n": c.Deep}) })
		case "globals":
			what = fmt.Sprintf("ParseGlobals(%q)", c.Text)
			panicked = catch(func() { _, err = soy.ParseGlobals(strings.NewReader(c.Text)) })
		default:
			names, srcs := gen.Sources(&c.Prog.Prog)
			what = "render\n" + showSources(names, srcs) + fmt.Sprintf("data=%v obligatory=%v", c.Prog.Data, c.Obligatory)
			cb, cerr, pn := compileBundle(names, srcs, c.Prog.Prog.Globals)
			if pn != nil {
				panicked = fmt.Sprintf("compile: %v", pn)
				return
			}
			if cerr != nil {
				compiles = false
				return
			}
			saved := soyhtml.ObligatoryPrintDirectiveNames
			soyhtml.ObligatoryPrintDirectiveNames = append([]string{}, c.Obligatory...)
			defer func() { soyhtml.ObligatoryPrintDirectiveNames = saved }()
			var buf bytes.Buffer
			panicked = catch(func() {
				rd := cb.tofu.NewRenderer(c.Prog.Entry)
				if c.Prog.HasIJ {
					rd.Inject(toDataMap(c.Prog.IJ))
				}
				if c.StaleMsgs > 0 {
					rd.WithMessages(staleBundle(cb, c.StaleMsgs))
				}
				err = rd.Execute(&buf, toDataMap(c.Prog.Data))
			})
			if panicked == nil && err == nil || panicked == nil && hashCase(c)%3 == 0 {
				// names that are no template of the bundle (misspelt, unqualified, empty, ...): an error,
				// with the application's logger installed or not
				saved := soyhtml.Logger
				if hashCase(c)%2 == 0 {
					soyhtml.Logger = log.New(io.Discard, "", 0)
				}
				defer func() { soyhtml.Logger = saved }()
				last := c.Prog.Entry
				if i := strings.LastIndex(last, "."); i >= 0 {
					last = last[i+1:]
				}
				for _, name := range []string{"", last, "." + last, c.Prog.Entry + ".", c.Prog.Entry + "x", ".", "..", "no.such.template", "\x00", strings.Repeat("a.", 3000), c.Prog.Entry + " "} {
					var nerr error
					var nbuf bytes.Buffer
					via := "NewRenderer(name).Execute"
					pn := catch(func() {
						if len(name)%2 == 0 {
							nerr = cb.tofu.NewRenderer(name).Execute(&nbuf, toDataMap(c.Prog.Data))
						} else {
							via = "Tofu.Render"
							nerr = cb.tofu.Render(&nbuf, name, nil)
						}
					})
					if pn != nil {
						panicked = fmt.Sprintf("%s with the name %q, which is no template of the bundle: %v", via, trunc(name, 60), pn)
						return
					}
					if nerr == nil {
						panicked = fmt.Sprintf("%s with the name %q, which is no template of the bundle, returned no error (wrote %q)", via, trunc(name, 60), trunc(nbuf.String(), 100))
						return
					}
				}
			}
			if panicked == nil && c.Hostile > 0 {
				obj := map[string]interface{}{}
				for k, v := range c.Prog.Data {
					obj[k] = toJSON(v)
				}
				obj["zzHostile"] = c06Hostile(c.Hostile)
				what += fmt.Sprintf(" then Tofu.Render with the Go value %T among the data", obj["zzHostile"])
				var buf2 bytes.Buffer
				panicked = catch(func() { err = cb.tofu.Render(&buf2, c.Prog.Entry, obj) })
			}
		}
	}
	t0 := time.Now()
	if !finishes(watchdogLimit(), run) {
		hangExit("C06", c, what)
	}
	if os.Getenv("VERIF_C06_SLOW") != "" && time.Since(t0) > 200*time.Millisecond {
		fmt.Printf("SLOW %v kind=%s deep=%d hostile=%d err=%v\n%s\n", time.Since(t0), c.Kind, c.Deep, c.Hostile, err != nil, trunc(what, 1500))
	}
	if !compiles {
		return excluded("does not compile / parse (outside the property's domain)")
	}
	if panicked != nil {
		return bad(true, "a panic escaped to the caller: %v\n%s", panicked, what)
	}
	if err != nil && strings.TrimSpace(err.Error()) == "" {
		return bad(true, "error value with empty text\n%s", what)
	}
	outcome := "ok"
	if err != nil {
		outcome = "error"
	}
	return ok(err != nil || c.Mutations > 0, c.Kind+":"+outcome)
}

func TestC06(t *testing.T) { runPropCrashy(t, "C06", genC06, checkC06) }

var _ = ref.OK
