package props

import (
	"unicode/utf8"
	"encoding/json"
	"fmt"
	"os"
	"os/exec"
	"path/filepath"
	"regexp"
	"strings"
	"testing"

	"github.com/robfig/soy/ast"
	"github.com/robfig/soy/soymsg"
	"pgregory.net/rapid"

	"verif/harness/gen"
	"verif/harness/ref"
)

// C10: message ids are a stable function of message content and meaning.
//
//	(1) determinism across recompilations in one process and across processes
//	(2) insensitivity to description, surrounding code, other messages, file order
//	(3) sensitivity to text, placeholder order/structure, plural cases, meaning
//	(4) placeholder names equal an independent implementation of the naming rule
//	    (base names written out by hand from the official rule for the generator's pool)
//	(5) every placeholder name is non-empty, matches [A-Z0-9_]+, and distinct
//	    placeholders have distinct names

type C10Case struct {
	Cmds []ref.Cmd `json:"cmds"` // lets followed by one msg (from gen.MsgStress)
}

type msgInfo struct {
	id    uint64
	phstr string
	names []string // placeholder/plural names in document order, with the placeholder's source text
}

func msgInfos(cb *compiled) []msgInfo {
	var out []msgInfo
	for _, t := range cb.reg.Templates {
		collectMsgs(t.Node, func(m *ast.MsgNode) {
			out = append(out, msgInfo{id: m.ID, phstr: soymsg.PlaceholderString(m), names: strings.Split(placeholderNames(m), phSep)})
		})
	}
	return out
}

func progWith(body []ref.Cmd, extraBefore, extraAfter []ref.Cmd) *ref.Program {
	all := append(append(append([]ref.Cmd{}, extraBefore...), body...), extraAfter...)
	return &ref.Program{Globals: gen.MsgGlobals, Files: []ref.File{{Name: "m.soy", Namespace: "m", Templates: []ref.Template{{Name: "t", Body: all}}}}}
}

func compileMsgs(p *ref.Program, reverseFiles bool) ([]msgInfo, error) {
	names, srcs := gen.Sources(p)
	if reverseFiles {
		for i, j := 0, len(names)-1; i < j; i, j = i+1, j-1 {
			names[i], names[j] = names[j], names[i]
			srcs[i], srcs[j] = srcs[j], srcs[i]
		}
	}
	cb, err, pn := compileBundle(names, srcs, p.Globals)
	if err != nil || pn != nil {
		return nil, fmt.Errorf("%v %v\n%s", err, pn, showSources(names, srcs))
	}
	return msgInfos(cb), nil
}

// ---- the independent naming rule -------------------------------------------------------------

// c10BaseNames: base names written out by hand for the original pool; TestC10BaseNameModel keeps the
// general model (ref.ExprBaseName / ref.TagBaseName) anchored on them.
var c10BaseNames = map[string]string{
	"$x": "X", "$x_1": "X_1", "$x_2": "X_2", "$a.x": "X", "$b.x": "X", "$a.y": "Y", "$userName": "USER_NAME", "$n2x": "N_2_X", "$num": "NUM", "$cnt.num": "NUM",
	`<a href="u">`: "START_LINK", `<a href="other">`: "START_LINK", "</a>": "END_LINK", "<b>": "START_BOLD", "</b>": "END_BOLD", "<br/>": "BREAK", "<br>": "START_BREAK",
	"<i>": "START_ITALIC", "</i>": "END_ITALIC", `<span class="c">`: "START_SPAN", "</span>": "END_SPAN", `<img src="i.png"/>`: "IMAGE",
	"<p>": "START_PARAGRAPH", "<li>": "START_ITEM", "<em>": "START_EMPHASIS", "<h1>": "START_H_1", "<A>": "START_LINK",
}

var tagRe = regexp.MustCompile(`</?[a-zA-Z0-9]+[^>]*?>`)

type phRef struct {
	key  string // identity of the placeholder: its source text
	base string
}

// refPlaceholders lists the placeholders of a message body in the order the naming rule visits them
// (top level first, then the bodies of plural cases), with their hand-derived base names.
func refPlaceholders(body []ref.Cmd) (order []phRef, err error) {
	var queue [][]ref.Cmd
	visit := func(cmds []ref.Cmd) {
		cmds = ref.MergeText(cmds)
		for _, c := range cmds {
			switch c.K {
			case "text":
				for _, tag := range tagRe.FindAllString(ref.NormalizeText(c.Text), -1) {
					order = append(order, phRef{"tag:" + tag, ref.TagBaseName(tag)})
				}
			case "print":
				src := gen.PrintExpr(c.Expr)
				b := ref.ExprBaseName(c.Expr, "XXX")
				key := "print:" + src + gen.PrintDirectives(c.Directives)
				order = append(order, phRef{key, b})
			case "plural":
				src := gen.PrintExpr(c.Expr)
				order = append(order, phRef{"plural:" + src, ref.ExprBaseName(c.Expr, "NUM")})
				for _, br := range c.Branches {
					queue = append(queue, br.Body)
				}
				queue = append(queue, c.Else)
			}
		}
	}
	visit(body)
	for len(queue) > 0 {
		q := queue[0]
		queue = queue[1:]
		visit(q)
	}
	return
}

// refNames: same placeholder -> same name; distinct placeholders with one base name get _1, _2, ... in order of
// appearance, skipping names that are taken; a base name used by a single placeholder is used as it is.
func refNames(order []phRef) map[string]string {
	byBase := map[string][]string{}
	var bases []string
	seen := map[string]bool{}
	for _, p := range order {
		if seen[p.key] {
			continue
		}
		seen[p.key] = true
		if _, okb := byBase[p.base]; !okb {
			bases = append(bases, p.base)
		}
		byBase[p.base] = append(byBase[p.base], p.key)
	}
	names := map[string]string{}
	taken := map[string]bool{}
	for _, b := range bases {
		if len(byBase[b]) == 1 {
			names[byBase[b][0]] = b
			taken[b] = true
		}
	}
	for _, b := range bases {
		if len(byBase[b]) == 1 {
			continue
		}
		n := 1
		for _, k := range byBase[b] {
			// (the official loop skips every candidate that is the base name of some placeholder of the
			// message - also of a group that gets suffixes itself: X_1 stays free for the group X_1)
			for taken[fmt.Sprintf("%s_%d", b, n)] || len(byBase[fmt.Sprintf("%s_%d", b, n)]) > 0 {
				n++
			}
			names[k] = fmt.Sprintf("%s_%d", b, n)
			taken[names[k]] = true
		}
	}
	return names
}

var phNameRe = regexp.MustCompile(`^[A-Z0-9_]+$`)

func theMsg(cmds []ref.Cmd) *ref.Cmd {
	for i := range cmds {
		if cmds[i].K == "msg" {
			return &cmds[i]
		}
	}
	return nil
}

func cloneCmds(c []ref.Cmd) []ref.Cmd {
	b, _ := json.Marshal(c)
	var out []ref.Cmd
	json.Unmarshal(b, &out)
	return out
}

var c10rec *recorder

func checkC10(c C10Case) Verdict {
	base := progWith(c.Cmds, nil, nil)
	infos, err := compileMsgs(base, false)
	if err != nil {
		return bad(true, "generated message does not compile: %v", err)
	}
	if len(infos) != 1 {
		return excluded("harness: expected exactly one message")
	}
	m0 := infos[0]
	msg := theMsg(c.Cmds)
	names, srcs := gen.Sources(base)
	src := showSources(names, srcs)

	// (5) well-formed, distinct names; (4) equal to the independent naming rule
	order, rerr := refPlaceholders(msg.Body)
	if rerr != nil {
		return excluded("harness: " + rerr.Error())
	}
	want := refNames(order)
	seenName := map[string]string{}
	for _, n := range m0.names {
		if n == "" {
			continue
		}
		kv := strings.SplitN(n, "=", 2)
		name := strings.TrimPrefix(strings.TrimPrefix(kv[0], "ph:"), "plural:")
		if !phNameRe.MatchString(name) {
			return bad(true, "placeholder name %q is empty or not of the form [A-Z0-9_]+ (%s)\n%s", name, n, src)
		}
		if strings.HasPrefix(kv[0], "ph:") && len(kv) == 2 {
			if prev, dup := seenName[name]; dup && prev != kv[1] {
				return bad(true, "distinct placeholders %s and %s share the name %s\n%s", prev, kv[1], name, src)
			}
			seenName[name] = kv[1]
		}
	}
	// compare the multiset of names with the reference, in document order of first appearance
	var got []string
	for _, n := range m0.names {
		if n != "" {
			got = append(got, strings.SplitN(strings.TrimPrefix(strings.TrimPrefix(n, "ph:"), "plural:"), "=", 2)[0])
		}
	}
	var wantSeq []string
	var docOrder func(cmds []ref.Cmd)
	docOrder = func(cmds []ref.Cmd) {
		cmds = ref.MergeText(cmds)
		for _, cm := range cmds {
			switch cm.K {
			case "text":
				for _, tag := range tagRe.FindAllString(ref.NormalizeText(cm.Text), -1) {
					wantSeq = append(wantSeq, want["tag:"+tag])
				}
			case "print":
				key := "print:" + gen.PrintExpr(cm.Expr) + gen.PrintDirectives(cm.Directives)
				wantSeq = append(wantSeq, want[key])
			case "plural":
				wantSeq = append(wantSeq, want["plural:"+gen.PrintExpr(cm.Expr)])
				for _, br := range cm.Branches {
					docOrder(br.Body)
				}
				docOrder(cm.Else)
			}
		}
	}
	docOrder(msg.Body)
	if strings.Join(got, ",") != strings.Join(wantSeq, ",") {
		return bad(true, "placeholder names differ from the naming rule\n got  %v\n want %v\n%s", got, wantSeq, src)
	}

	// (4b) the id equals the official fingerprint of the content string (independent port, anchored on
	// the known answers of the Java implementation in harness/ref/fingerprint_test.go)
	if content, cerr := contentString(msg.Body, want); cerr == nil {
		if wantID := ref.MessageID(content, msg.Meaning); wantID != m0.id {
			return bad(true, "message id %d differs from the official fingerprint %d of content %q (meaning %q)\n%s", m0.id, wantID, content, msg.Meaning, src)
		}
	}

	// (1a) the same source loaded from a file gives the same message
	{
		cbf, ferr, fpn := compileDir(filepath.Join(outDir(), "c10-dir-"+shard()), names, srcs, base.Globals)
		if ferr != nil || fpn != nil {
			return bad(true, "the same source does not compile when it is loaded from a file: %v %v\n%s", ferr, fpn, src)
		}
		if fi := msgInfos(cbf); len(fi) != 1 || fi[0].id != m0.id || strings.Join(fi[0].names, ",") != strings.Join(m0.names, ",") {
			return bad(true, "loaded from a file the message gets another id or other names: %v vs %v\n%s", fi, m0, src)
		}
	}
	// (1) determinism in this process
	reps := scale(15, 40)
	for i := 0; i < reps; i++ {
		again, err := compileMsgs(base, false)
		if err != nil || len(again) != 1 || again[0].id != m0.id || strings.Join(again[0].names, ",") != strings.Join(m0.names, ",") {
			return bad(true, "recompilation %d gave a different id or names: %v vs %v\n%s", i+1, again, m0, src)
		}
	}
	same := func(what string, p *ref.Program, rev bool, idx int) error {
		in, err := compileMsgs(p, rev)
		if err != nil {
			return fmt.Errorf("variant [%s] does not compile: %v", what, err)
		}
		for _, x := range in {
			if x.phstr == m0.phstr && x.id == m0.id {
				return nil
			}
		}
		return fmt.Errorf("variant [%s] changed the id of the message (was %d, now %v)\n%s", what, m0.id, in, src)
	}
	differs := func(what string, cmds []ref.Cmd) error {
		in, err := compileMsgs(progWith(cmds, nil, nil), false)
		if err != nil {
			return fmt.Errorf("variant [%s] does not compile: %v", what, err)
		}
		if len(in) == 1 && in[0].id == m0.id {
			names, srcs := gen.Sources(progWith(cmds, nil, nil))
			return fmt.Errorf("variant [%s] did not change the id %d\n%s--- variant ---\n%s", what, m0.id, src, showSources(names, srcs))
		}
		return nil
	}
	// (2) insensitivity
	v := cloneCmds(c.Cmds)
	theMsg(v).Desc = "a completely different description"
	if err := same("description changed", progWith(v, nil, nil), false, 0); err != nil {
		return bad(true, "%v", err)
	}
	other := []ref.Cmd{{K: "msg", Desc: "other", Body: []ref.Cmd{txt("Some other message "), {K: "print", Expr: &ref.Expr{Op: "int", I: 1}}}}, txt("text")}
	if err := same("surrounded by other code and messages", progWith(c.Cmds, other, []ref.Cmd{{K: "if", Branches: []ref.Branch{{Cond: &ref.Expr{Op: "bool", B: true}, Body: other}}}}), false, 1); err != nil {
		return bad(true, "%v", err)
	}
	// next to a message that uses the same tags, where they need other names: every tag of the message
	// (the very same text) beside a tag of its kind with another attribute
	{
		var twins []ref.Cmd
		var collect func(cs []ref.Cmd)
		seenTag := map[string]bool{}
		collect = func(cs []ref.Cmd) {
			for _, x := range cs {
				if x.K == "text" {
					for _, tag := range tagRe.FindAllString(ref.NormalizeText(x.Text), -1) {
						if seenTag[tag] || len(tag) < 3 || !utf8.ValidString(tag) {
							continue
						}
						seenTag[tag] = true
						other := tag[:len(tag)-1] + " data-zz=\"1\">"
						if strings.HasSuffix(tag, "/>") {
							other = tag[:len(tag)-2] + " data-zz=\"1\"/>"
						}
						twins = append(twins, txt(other+" x "+tag+" y "))
					}
				}
				for _, br := range x.Branches {
					collect(br.Body)
				}
				collect(x.Else)
			}
		}
		collect(msg.Body)
		if len(twins) > 0 {
			neighbour := []ref.Cmd{{K: "msg", Desc: "a neighbour with the same tags", Body: twins}}
			for _, before := range []bool{false, true} {
				pw := progWith(c.Cmds, nil, neighbour)
				if before {
					pw = progWith(c.Cmds, neighbour, nil)
				}
				if err := same(fmt.Sprintf("next to a message with the same tags under other names (in front: %v)", before), pw, false, 0); err != nil {
					return bad(true, "%v", err)
				}
			}
		}
	}
	// the same message inside every kind of block (its lets travel with it)
	wrap := map[string]func(body []ref.Cmd) []ref.Cmd{
		"let content": func(b []ref.Cmd) []ref.Cmd { return []ref.Cmd{{K: "letc", Var: "zz", Body: b}, printVar("zz")} },
		"call param content": func(b []ref.Cmd) []ref.Cmd {
			return []ref.Cmd{{K: "call", Call: &ref.Call{Target: "m.echo", Params: []ref.Param{{Key: "v", IsBlock: true, Content: b}}}}}
		},
		"loop body": func(b []ref.Cmd) []ref.Cmd {
			return []ref.Cmd{{K: "for", Var: "zi", Expr: &ref.Expr{Op: "call", Name: "range", Args: []*ref.Expr{{Op: "int", I: 2}}}, Body: b}}
		},
		"ifempty": func(b []ref.Cmd) []ref.Cmd {
			return []ref.Cmd{{K: "for", Style: 1, Var: "zi", Expr: &ref.Expr{Op: "list"}, Body: []ref.Cmd{txt("x")}, HasElse: true, Else: b}}
		},
		"switch case": func(b []ref.Cmd) []ref.Cmd {
			return []ref.Cmd{{K: "switch", Expr: &ref.Expr{Op: "int", I: 1}, Branches: []ref.Branch{{Values: []*ref.Expr{{Op: "int", I: 1}}, Body: b}}, HasElse: true, Else: []ref.Cmd{txt("d")}}}
		},
		"switch default": func(b []ref.Cmd) []ref.Cmd {
			return []ref.Cmd{{K: "switch", Expr: &ref.Expr{Op: "int", I: 1}, Branches: []ref.Branch{{Values: []*ref.Expr{{Op: "int", I: 2}}, Body: []ref.Cmd{txt("c")}}}, HasElse: true, Else: b}}
		},
		"else branch": func(b []ref.Cmd) []ref.Cmd {
			return []ref.Cmd{{K: "if", Branches: []ref.Branch{{Cond: &ref.Expr{Op: "bool"}, Body: []ref.Cmd{txt("t")}}}, HasElse: true, Else: b}}
		},
		"log": func(b []ref.Cmd) []ref.Cmd { return []ref.Cmd{{K: "log", Body: b}} },
	}
	for what, w := range wrap {
		wp := progWith(w(cloneCmds(c.Cmds)), nil, nil)
		wp.Files[0].Templates = append(wp.Files[0].Templates, ref.Template{Name: "echo", Params: []ref.ParamDecl{{Name: "v"}}, Body: []ref.Cmd{printVar("v")}})
		if err := same("inside "+what, wp, false, 0); err != nil {
			return bad(true, "%v", err)
		}
	}
	two := progWith(c.Cmds, nil, nil)
	two.Files = append(two.Files, ref.File{Name: "n.soy", Namespace: "n", Templates: []ref.Template{{Name: "u", Body: other}}})
	for _, rev := range []bool{false, true} {
		if err := same(fmt.Sprintf("second file added (reversed order: %v)", rev), two, rev, 0); err != nil {
			return bad(true, "%v", err)
		}
	}
	// (3) sensitivity
	v = cloneCmds(c.Cmds)
	theMsg(v).Meaning += "zz"
	if err := differs("meaning changed", v); err != nil {
		return bad(true, "%v", err)
	}
	v = cloneCmds(c.Cmds)
	mm := theMsg(v)
	if len(mm.Body) > 0 && mm.Body[0].K == "plural" {
		mm.Body[0].Else = append(mm.Body[0].Else, txt(" extra"))
	} else {
		mm.Body = append(mm.Body, txt(" extra"))
	}
	if err := differs("text appended", v); err != nil {
		return bad(true, "%v", err)
	}
	if len(msg.Body) > 0 && msg.Body[0].K == "plural" {
		v = cloneCmds(c.Cmds)
		pl := &theMsg(v).Body[0]
		pl.Branches = append(pl.Branches, ref.Branch{Int: 7, Body: []ref.Cmd{txt("seven")}})
		if err := differs("plural case added", v); err != nil {
			return bad(true, "%v", err)
		}
	} else {
		// swap two adjacent parts whose placeholder strings differ
		for i := 0; i+1 < len(msg.Body); i++ {
			a, b := msg.Body[i], msg.Body[i+1]
			ja, _ := json.Marshal(a)
			jb, _ := json.Marshal(b)
			if string(ja) == string(jb) || a.K == "text" && b.K == "text" || a.K == "sp" || b.K == "sp" || a.K == "lb" || a.K == "rb" || b.K == "lb" || b.K == "rb" {
				continue
			}
			v = cloneCmds(c.Cmds)
			mb := theMsg(v).Body
			mb[i], mb[i+1] = mb[i+1], mb[i]
			// equal placeholders (same name) swapped change nothing: only demand a change when the content string changes
			in, err := compileMsgs(progWith(v, nil, nil), false)
			// (the official algorithm fingerprints placeholder names without braces in a message
			// that has no plural, so {X}{XXX} and {XXX}{X} are the same content)
			unbraced := func(s string) string { return strings.NewReplacer("{", "", "}", "").Replace(s) }
			if err == nil && len(in) == 1 && unbraced(in[0].phstr) != unbraced(m0.phstr) && in[0].id == m0.id {
				return bad(true, "swapping parts %d and %d changed the content (%q -> %q) but not the id %d\n%s", i, i+1, m0.phstr, in[0].phstr, m0.id, src)
			}
			break
		}
	}
	// (1b) another process
	children := 0
	if os.Getenv("VERIF_C10_CHILD") == "" && hashCase(c)%uint64(scale(8, 3)) == 0 {
		b, _ := json.Marshal(c)
		if f, err := os.CreateTemp(outDir(), "c10-*.json"); err == nil {
			f.Write(b)
			f.Close()
			defer os.Remove(f.Name())
			cmd := exec.Command(os.Args[0], "-test.run", "^TestC10Child$")
			cmd.Env = append(os.Environ(), "VERIF_C10_CHILD="+f.Name())
			if out, err := cmd.Output(); err == nil {
				if i := strings.Index(string(out), "MSGID "); i >= 0 {
					children++
					line := strings.SplitN(string(out)[i:], "\n", 2)[0]
					if wantLine := fmt.Sprintf("MSGID %d %s", m0.id, strings.Join(m0.names, ",")); line != wantLine {
						return bad(true, "another process computed a different id or names\n here:  %s\n there: %s\n%s", wantLine, line, src)
					}
				}
			}
		}
	}
	if c10rec != nil {
		c10rec.add("recompilations", reps)
		c10rec.add("child_processes", children)
	}
	suffixed := false
	for _, n := range got {
		if regexp.MustCompile(`_\d+$`).MatchString(n) {
			suffixed = true
		}
	}
	res := ok(suffixed || len(msg.Body) > 0 && msg.Body[0].K == "plural")
	if suffixed {
		res.Classes = append(res.Classes, "same-base-name placeholders")
	}
	if len(msg.Body) > 0 && msg.Body[0].K == "plural" {
		res.Classes = append(res.Classes, "plural")
	}
	if msg.Meaning != "" {
		res.Classes = append(res.Classes, "meaning")
	}
	return res
}

func genC10(t *rapid.T) C10Case {
	g := &gen.G{T: t, P: gen.Profile{RawBytes: true, NestedPlural: true}}
	return C10Case{Cmds: g.MsgStress(true)}
}

func TestC10(t *testing.T) {
	fileRoute = true
	defer func() { fileRoute = false }()
	c10rec = newRecorder("C10x")
	defer c10rec.flush()
	runProp(t, "C10", genC10, checkC10)
}

func TestC10BaseNameModel(t *testing.T) {
	for src, want := range c10BaseNames {
		var got string
		if strings.HasPrefix(src, "<") {
			got = ref.TagBaseName(src)
		} else {
			parts := strings.Split(strings.TrimPrefix(src, "$"), ".")
			e := &ref.Expr{Op: "ref", Name: parts[0]}
			for _, k := range parts[1:] {
				e.Access = append(e.Access, ref.Access{Kind: "key", Key: k})
			}
			got = ref.ExprBaseName(e, "XXX")
		}
		if got != want {
			t.Errorf("base name of %s: model says %q, the hand-written table %q", src, got, want)
		}
	}
	for id, want := range map[string]string{"toDoItem": "TO_DO_ITEM", "userIdNo": "USER_ID_NO", "aBcDe": "A_BC_DE", "URLPath": "URL_PATH", "_x_": "X", "x__3": "X_3", "x12": "X_12", "n2x": "N_2_X", "ABC": "ABC", "aB": "AB", "aBc": "A_BC"} {
		if got := ref.UpperUnderscore(id); got != want {
			t.Errorf("UpperUnderscore(%q) = %q, want %q", id, got, want)
		}
	}
}

func TestC10Child(t *testing.T) {
	p := os.Getenv("VERIF_C10_CHILD")
	if p == "" {
		t.Skip("helper for TestC10")
	}
	var c C10Case
	if err := loadCase(p, &c); err != nil {
		t.Fatal(err)
	}
	in, err := compileMsgs(progWith(c.Cmds, nil, nil), false)
	if err != nil || len(in) != 1 {
		t.Fatal(err)
	}
	fmt.Printf("MSGID %d %s\n", in[0].id, strings.Join(in[0].names, ","))
}

// contentString builds the string the official algorithm fingerprints: text and placeholder names
// (without braces), or for a plural message the ICU-like form with braced placeholders.
func contentString(body []ref.Cmd, names map[string]string) (string, error) {
	var render func(cmds []ref.Cmd, braces bool) (string, error)
	render = func(cmds []ref.Cmd, braces bool) (string, error) {
		var b strings.Builder
		ph := func(n string) {
			if braces {
				b.WriteString("{" + n + "}")
			} else {
				b.WriteString(n)
			}
		}
		for _, c := range ref.MergeText(cmds) {
			switch c.K {
			case "text":
				s := ref.NormalizeText(c.Text)
				last := 0
				for _, loc := range tagRe.FindAllStringIndex(s, -1) {
					b.WriteString(s[last:loc[0]])
					ph(names["tag:"+s[loc[0]:loc[1]]])
					last = loc[1]
				}
				b.WriteString(s[last:])
			case "sp":
				b.WriteString(" ")
			case "lb":
				b.WriteString("{")
			case "rb":
				b.WriteString("}")
			case "print":
				key := "print:" + gen.PrintExpr(c.Expr) + gen.PrintDirectives(c.Directives)
				ph(names[key])
			case "plural":
				b.WriteString("{" + names["plural:"+gen.PrintExpr(c.Expr)] + ",plural,")
				for _, br := range c.Branches {
					inner, err := render(br.Body, true)
					if err != nil {
						return "", err
					}
					fmt.Fprintf(&b, "=%d{%s}", br.Int, inner)
				}
				inner, err := render(c.Else, true)
				if err != nil {
					return "", err
				}
				b.WriteString("other{" + inner + "}}")
			default:
				return "", fmt.Errorf("unexpected %s", c.K)
			}
		}
		return b.String(), nil
	}
	return render(body, false)
}
