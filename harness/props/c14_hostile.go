package props

import (
	"bytes"
	"fmt"
	"math"

	"github.com/robfig/soy"
	"github.com/robfig/soy/data"
	"github.com/robfig/soy/soyjs"
)

// The hand-written tier of C14: small bundles at the edges of what the compiler accepts (constructs the
// program generator does not write because the cross-backend subset has no use for them). The rule is the
// property's own: IF the compiler accepts the bundle and the generator translates it, the script loads
// and defines its templates. A bundle the compiler refuses, or a construct the generator declines with an
// error, is no violation (and is counted).
type c14Hostile struct {
	name    string
	file    string // file name given to the bundle
	src     string
	globals data.Map
	defines []string // functions the script must define
}

var c14Hostiles = []c14Hostile{
	{name: "two {default} clauses in a switch", src: "{namespace zh}\n/** @param? x */\n{template .t}{switch $x}{case 1}one{default}a{default}b{/switch}{/template}\n", defines: []string{"zh.t"}},
	{name: "a {case} behind the {default}", src: "{namespace zh}\n/** @param? x */\n{template .t}{switch $x}{default}a{case 1}one{/switch}{/template}\n", defines: []string{"zh.t"}},
	{name: "length() of a number", src: "{namespace zh}\n/** */\n{template .t}{length(5)}{length(-5)}{length(1.5)}{/template}\n", defines: []string{"zh.t"}},
	{name: "strContains() on a number", src: "{namespace zh}\n/** */\n{template .t}{if strContains(5, 'a')}y{/if}{strContains(-5, 'a')}{/template}\n", defines: []string{"zh.t"}},
	{name: "length() of an integer global", src: "{namespace zh}\n/** */\n{template .t}{length(zh.MAX)}{length(zh.MIN)}{/template}\n", globals: data.Map{"zh.MAX": data.Int(10), "zh.MIN": data.Int(-5)}, defines: []string{"zh.t"}},
	{name: "a boolean function as the base of css", src: "{namespace zh}\n/** @param? a */\n{template .t}{css isNonnull($a), foo}{css strContains('ab', 'a'), bar}{/template}\n", defines: []string{"zh.t"}},
	{name: "globals that are not finite numbers", src: "{namespace zh}\n/** */\n{template .t}{zh.INF}{zh.NINF}{zh.NAN}{zh.INF + 1}{/template}\n",
		globals: data.Map{"zh.INF": data.Float(math.Inf(1)), "zh.NINF": data.Float(math.Inf(-1)), "zh.NAN": data.Float(math.NaN())}, defines: []string{"zh.t"}},
	{name: "a line feed in the file name", file: "a\nb.soy", src: "{namespace zh}\n/** */\n{template .t}x{/template}\n", defines: []string{"zh.t"}},
	{name: "U+2028 and a carriage return in the file name", file: "a b\rglobalThis.zzHunted = 1; //.soy", src: "{namespace zh}\n/** */\n{template .t}x{/template}\n", defines: []string{"zh.t"}},
	{name: "text between the templates of a file", src: "{namespace zh}\n/** */ {template .t}x{/template} stray \n/** */\n{template .u}y{/template}\n", defines: []string{"zh.t", "zh.u"}},
	{name: "a {plural} with two {default} clauses", src: "{namespace zh}\n/** @param n */\n{template .t}{msg desc=\"d\"}{plural $n}{case 1}a{default}b{default}c{/plural}{/msg}{/template}\n", defines: []string{"zh.t"}},
}

func c14HostileTier(rec *recorder) error {
	for _, h := range c14Hostiles {
		name := h.file
		if name == "" {
			name = "h.soy"
		}
		b := soy.NewBundle().AddTemplateString(name, h.src)
		if h.globals != nil {
			b.AddGlobalsMap(h.globals)
		}
		var reg, cerr = b.Compile()
		if cerr != nil {
			rec.add("hand_written_bundles_refused_by_the_compiler", 1)
			continue
		}
		var files []jsFile
		declined := false
		for _, f := range reg.SoyFiles {
			var buf bytes.Buffer
			var werr error
			if p := catch(func() { werr = soyjs.Write(&buf, f, soyjs.Options{}) }); p != nil {
				return fmt.Errorf("hand-written bundle [%s]: the JavaScript generator panicked: %v\n%s", h.name, p, h.src)
			}
			if werr != nil {
				declined = true
				break
			}
			files = append(files, jsFile{Name: "h.js", Src: buf.String()})
		}
		if declined {
			rec.add("hand_written_bundles_declined_by_the_generator", 1)
			continue
		}
		resp, err := theNode.do(jsRequest{Files: files, Typeofs: append([]string{"globalThis.zzHunted"}, h.defines...)})
		if err != nil {
			return nil // infra: not this tier's matter
		}
		for i, l := range resp.Load {
			if l != nil {
				return fmt.Errorf("hand-written bundle [%s]: the compiler accepts it, the generated script does not load: %s\n%s\n--- generated ---\n%s", h.name, *l, h.src, files[i].Src)
			}
		}
		for i, r := range resp.Typeofs {
			if i == 0 {
				if r != "undefined" {
					return fmt.Errorf("hand-written bundle [%s]: text of the file name was executed as code\n--- generated ---\n%s", h.name, files[0].Src)
				}
				continue
			}
			if r != "function" {
				return fmt.Errorf("hand-written bundle [%s]: the script does not define %s (typeof: %s)\n%s\n--- generated ---\n%s", h.name, h.defines[i-1], r, h.src, files[0].Src)
			}
		}
		rec.add("hand_written_bundles_accepted_and_loaded", 1)
	}
	return nil
}
