package props

import (
	"testing"

	"pgregory.net/rapid"

	"verif/harness/gen"
	"verif/harness/ref"
)

// C01: expressions evaluate exactly as the language defines, in every
// syntactic position, and valueless expressions make the render fail.

func genC01(t *rapid.T) gen.ProgCase {
	// (a fifth of the cases also call the application's own function and directive: functions are applied
	// by the same code, whoever registered them)
	g := &gen.G{T: t, P: gen.Profile{Unicode: true, HTMLChars: true, BigInts: true, Directives: true, Custom: rapid.IntRange(0, 4).Draw(t, "custom") == 0}}
	return gen.GenProgram(g, gen.ProgOpts{MaxTemplates: 2, MaxDepth: 1, MaxCmds: 4, ExprDepth: scale(3, 4), PosWeight: 40, Valueless: true})
}

func checkC01(c gen.ProgCase) Verdict {
	v, want, st := checkProgram("C01", c)
	if v.Err != nil || v.Excluded != "" {
		return v
	}
	v.NonTrivial = st.maxOps >= 2 || st.nonPrintPos > 0 || want.Status == ref.Valueless
	v.Classes = []string{"status:" + want.Status.String()}
	if st.maxOps >= 2 {
		v.Classes = append(v.Classes, "ops>=2")
	}
	if st.maxOps >= 5 {
		v.Classes = append(v.Classes, "ops>=5")
	}
	if st.nonPrintPos > 0 {
		v.Classes = append(v.Classes, "non-print-position")
	}
	return v
}

func TestC01(t *testing.T) {
	fileRoute = true
	defer func() { fileRoute = false }()
	runPropCrashy(t, "C01", genC01, checkC01)
}
