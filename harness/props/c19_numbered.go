package props

import (
	"fmt"
	"strconv"
	"strings"

	"github.com/robfig/soy/ast"
	"github.com/robfig/soy/errortypes"
	"github.com/robfig/soy/parse"

	"verif/harness/ref"
)

// The numbered tier of C19: templates are often numbered (item1 ... item12), and a position is a name
// and a number. The entry template .tN calls .tNM, which fails; the file is laid out so that the name of
// the entry template followed by the offset of its {call} reads the same as the name of the callee
// followed by the offset of its failing print ("t1" + "251" = "t12" + "51"). The error still belongs to
// the line of the {call} in the entry template.
func c19Numbered() error {
	for _, base := range []string{"t1", "item3", "row"} {
		for _, extra := range []string{"2", "12", "7", "40"} {
			callee := base + extra
			head := "{namespace ns.c19n}\n\n/** @param? x */\n{template ." + callee + "}\nfirst line\n{$x.nokey.deeper}\n{/template}\n"
			tail := "\n/** */\n{template ." + base + "}\nline one\nline two\n{call ." + callee + " /}\nafter\n{/template}\n"
			pad := ""
			var src string
			aligned := false
			for try := 0; try < 6 && !aligned; try++ {
				src = head + pad + tail
				tree, err := parse.SoyFile("numbered.soy", src)
				if err != nil {
					return nil // (the harness's own file: not this tier's matter)
				}
				var callPos, printPos ast.Pos
				var walk func(n ast.Node)
				walk = func(n ast.Node) {
					switch n := n.(type) {
					case *ast.CallNode:
						callPos = n.Pos
					case *ast.PrintNode:
						printPos = n.Pos
					}
					if p, ok := n.(ast.ParentNode); ok {
						for _, ch := range p.Children() {
							if ch != nil {
								walk(ch)
							}
						}
					}
				}
				walk(tree)
				want, _ := strconv.Atoi(extra + strconv.Itoa(int(printPos)))
				switch d := want - int(callPos); {
				case d == 0:
					aligned = true
				case d > 0 && d < 1<<20:
					if d < 5 {
						d = 5 // (a comment is "/**/" and a line break at the least: overshoot, the next try fails and ends)
					}
					pad += "/*" + strings.Repeat("p", d-5) + "*/\n"
				default:
					try = 99
				}
			}
			if !aligned {
				continue
			}
			cb, err, pn := compileBundle([]string{"numbered.soy"}, []string{src}, nil)
			if err != nil || pn != nil {
				continue
			}
			rr := cb.render("ns.c19n."+base, map[string]ref.Value{}, nil, false)
			if rr.err == nil || rr.panicked != nil {
				return fmt.Errorf("render of ns.c19n.%s, whose callee fails: error %v, panic %v\n%s", base, rr.err, rr.panicked, numbered(src))
			}
			fp := errortypes.ToErrFilePos(rr.err)
			wantLine := 1 + strings.Count(src[:strings.Index(src, "{call ."+callee)], "\n")
			if fp == nil || fp.Line() != wantLine {
				got := -1
				if fp != nil {
					got = fp.Line()
				}
				return fmt.Errorf("render error reported at line %d; the {call} of the entry template .%s (whose callee .%s fails) is on line %d\n%v\n%s", got, base, callee, wantLine, trunc(rr.err.Error(), 300), numbered(src))
			}
		}
	}
	return nil
}
