// Package props holds one generated check per property (c01_test.go …) and the
// small amount of plumbing they share: statistics for the evidence files,
// failing-case files for replay, corpus replay and an in-process watchdog.
package props

import (
	"encoding/json"
	"fmt"
	"hash/fnv"
	"os"
	"path/filepath"
	"sort"
	"strings"
	"sync"
	"testing"
	"time"

	"pgregory.net/rapid"
)

// Verdict is what a property's checkCase returns for one case.
type Verdict struct {
	Err        error    // non-nil: the property is violated on this case
	NonTrivial bool     // case is non-trivial by the property's stated rule
	Classes    []string // labels for the class histogram
	Excluded   string   // non-empty: case not judged (unspecified cell / open finding), with the reason
}

func ok(nontrivial bool, classes ...string) Verdict {
	return Verdict{NonTrivial: nontrivial, Classes: classes}
}
func bad(nontrivial bool, format string, args ...interface{}) Verdict {
	return Verdict{Err: fmt.Errorf(format, args...), NonTrivial: nontrivial}
}
func excluded(reason string) Verdict { return Verdict{Excluded: reason} }

// ---------------------------------------------------------------------------

func verifRoot() string {
	if r := os.Getenv("VERIF_ROOT"); r != "" {
		return r
	}
	return "/verif"
}

func outDir() string {
	if d := os.Getenv("VERIF_OUT"); d != "" {
		return d
	}
	d := filepath.Join(os.TempDir(), "verif-out")
	os.MkdirAll(d, 0o755)
	return d
}

func shard() string {
	if s := os.Getenv("VERIF_SHARD"); s != "" {
		return s
	}
	return "0"
}

func tier() string {
	if s := os.Getenv("VERIF_TIER"); s != "" {
		return s
	}
	return "quick"
}

func thorough() bool { return tier() == "thorough" }

// scale picks a size bound by tier.
func scale(quick, thoroughV int) int {
	if thorough() {
		return thoroughV
	}
	return quick
}

// ---------------------------------------------------------------------------
// known findings

type finding struct {
	ID       string `json:"id"`
	Property string `json:"property"`
	Status   string `json:"status"` // "open" or "fixed"
	What     string `json:"what"`
	Witness  string `json:"witness,omitempty"`
	Commit   string `json:"commit,omitempty"`
}

var (
	findingsOnce sync.Once
	findingsOpen = map[string]bool{}
)

// findingOpen reports whether the known-findings file lists id as an open
// (recorded, unrepaired) defect. Generators use it to exclude the defect by
// construction so the search continues past it.
func findingOpen(id string) bool {
	findingsOnce.Do(func() {
		b, err := os.ReadFile(filepath.Join(verifRoot(), "known_findings.json"))
		if err != nil {
			return
		}
		var fs struct {
			Findings []finding `json:"findings"`
		}
		if json.Unmarshal(b, &fs) != nil {
			return
		}
		for _, f := range fs.Findings {
			if f.Status == "open" {
				findingsOpen[f.ID] = true
			}
		}
	})
	if os.Getenv("VERIF_NO_EXCLUDE") != "" {
		return false
	}
	return findingsOpen[id]
}

// ---------------------------------------------------------------------------
// statistics

type recorder struct {
	mu          sync.Mutex
	id          string
	Evaluations int            `json:"evaluations"`
	Replayed    int            `json:"corpus_replayed"`
	Hashes      []uint64       `json:"nontrivial_hashes"`
	Classes     map[string]int `json:"classes"`
	Excluded    map[string]int `json:"excluded"`
	Samples     []interface{}  `json:"samples"`
	Extra       map[string]int `json:"extra"`
	seen        map[uint64]struct{}
	start       time.Time
}

func newRecorder(id string) *recorder {
	return &recorder{id: id, Classes: map[string]int{}, Excluded: map[string]int{}, Extra: map[string]int{},
		seen: map[uint64]struct{}{}, start: time.Now()}
}

func hashCase(c interface{}) uint64 {
	b, _ := json.Marshal(c)
	h := fnv.New64a()
	h.Write(b)
	return h.Sum64()
}

func (r *recorder) record(c interface{}, v Verdict) {
	r.mu.Lock()
	defer r.mu.Unlock()
	r.Evaluations++
	if v.Excluded != "" {
		r.Excluded[v.Excluded]++
		return
	}
	for _, cl := range v.Classes {
		r.Classes[cl]++
	}
	if v.NonTrivial {
		h := hashCase(c)
		if _, dup := r.seen[h]; !dup {
			r.seen[h] = struct{}{}
			r.Hashes = append(r.Hashes, h)
			if len(r.Samples) < 3 {
				r.Samples = append(r.Samples, c)
			}
		}
	} else {
		r.Classes["trivial"]++
	}
}

func (r *recorder) add(key string, n int) {
	r.mu.Lock()
	r.Extra[key] += n
	r.mu.Unlock()
}

func (r *recorder) flush() {
	r.mu.Lock()
	defer r.mu.Unlock()
	type out struct {
		*recorder
		WallS float64 `json:"wall_s"`
	}
	b, _ := json.Marshal(out{r, time.Since(r.start).Seconds()})
	os.WriteFile(filepath.Join(outDir(), fmt.Sprintf("stats-%s-%s.json", r.id, shard())), b, 0o644)
}

// ---------------------------------------------------------------------------
// failing / current case files

func failPath(id string) string {
	return filepath.Join(outDir(), fmt.Sprintf("fail-%s-%s.json", id, shard()))
}
func currentPath(id string) string {
	return filepath.Join(outDir(), fmt.Sprintf("current-%s-%s.json", id, shard()))
}

type failFile struct {
	Property string      `json:"property"`
	Error    string      `json:"error"`
	Case     interface{} `json:"case"`
}

func writeFail(id string, c interface{}, err error) {
	b, _ := json.MarshalIndent(failFile{id, err.Error(), c}, "", " ")
	os.WriteFile(failPath(id), b, 0o644)
}

// writeCurrent records the case about to be executed, for properties where the
// code under test may crash the process or never return. The driver picks the
// file up when the shard dies and confirms it by replay.
func writeCurrent(id string, c interface{}) {
	b, _ := json.Marshal(failFile{id, "process crashed or did not return while executing this case", c})
	os.WriteFile(currentPath(id), b, 0o644)
}

func clearCurrent(id string) { os.Remove(currentPath(id)) }

// loadCase reads either a bare case or a failFile wrapper.
func loadCase(path string, c interface{}) error {
	b, err := os.ReadFile(path)
	if err != nil {
		return err
	}
	var w struct {
		Case json.RawMessage `json:"case"`
	}
	if json.Unmarshal(b, &w) == nil && len(w.Case) > 0 {
		b = w.Case
	}
	return json.Unmarshal(b, c)
}

var (
	histOnce sync.Once
	histF    *os.File
)

// historyFile is the case log of history mode (nil when the mode is off).
func historyFile() *os.File {
	histOnce.Do(func() {
		if hp := os.Getenv("VERIF_HISTORY"); hp != "" {
			histF, _ = os.OpenFile(hp, os.O_CREATE|os.O_WRONLY|os.O_APPEND, 0o644)
		}
	})
	return histF
}

// histLog appends a case that is about to run to the history (exhaustive sub-tiers call it too).
func histLog(c interface{}) {
	if f := historyFile(); f != nil {
		b, _ := json.Marshal(c)
		f.Write(append(b, '\n'))
	}
}

// loadHistory reads a replay file of the form {"history": [case, case, ...]}.
func loadHistory(path string) ([]json.RawMessage, bool) {
	b, err := os.ReadFile(path)
	if err != nil {
		return nil, false
	}
	var w struct {
		History []json.RawMessage `json:"history"`
	}
	if json.Unmarshal(b, &w) != nil || len(w.History) == 0 {
		return nil, false
	}
	return w.History, true
}

// ---------------------------------------------------------------------------
// the common runner

// runProp drives one property: explicit replay, corpus replay, generated search.
//
//	gen   draws a Case (plain JSON-able value) using only rapid generators
//	check is a pure function of the Case and the code under test
func runProp[C any](t *testing.T, id string, gen func(*rapid.T) C, check func(C) Verdict) {
	runPropOpt(t, id, gen, check, false)
}

// runPropCrashy is runProp for checks whose subject may kill or wedge the
// process: the current case is written out before each evaluation.
func runPropCrashy[C any](t *testing.T, id string, gen func(*rapid.T) C, check func(C) Verdict) {
	runPropOpt(t, id, gen, check, true)
}

func runPropOpt[C any](t *testing.T, id string, gen func(*rapid.T) C, check func(C) Verdict, crashy bool) {
	if p := os.Getenv("VERIF_REPLAY"); p != "" {
		if hist, isHist := loadHistory(p); isHist {
			// a history: the cases are executed in order in this one process (failures that need
			// something an earlier case left behind in the process)
			for i, raw := range hist {
				var c C
				if err := json.Unmarshal(raw, &c); err != nil {
					fmt.Printf("INFRA: cannot load case %d of history %s: %v\n", i, p, err)
					os.Exit(2)
				}
				if v := check(c); v.Err != nil {
					fmt.Printf("REPLAY-FAIL property=%s at case %d of %d of the history: %v\n", id, i+1, len(hist), v.Err)
					t.Fatalf("replay failed: %v", v.Err)
				}
			}
			fmt.Printf("REPLAY-PASS property=%s (history of %d cases)\n", id, len(hist))
			return
		}
		var c C
		if err := loadCase(p, &c); err != nil {
			fmt.Printf("INFRA: cannot load replay file %s: %v\n", p, err)
			os.Exit(2)
		}
		v := check(c)
		if v.Err != nil {
			fmt.Printf("REPLAY-FAIL property=%s: %v\n", id, v.Err)
			t.Fatalf("replay failed: %v", v.Err)
		}
		fmt.Printf("REPLAY-PASS property=%s\n", id)
		return
	}
	rec := newRecorder(id)
	defer rec.flush()
	os.Remove(failPath(id))

	// history mode (set by the driver when a failing case did not fail again on its own): every case
	// is appended to a file before it runs, and the first failure ends the process at once
	histFile := historyFile()
	logCase := func(c C) { histLog(c) }

	// regression tier: committed corpus
	files, _ := filepath.Glob(filepath.Join(verifRoot(), "corpus", id, "*.json"))
	sort.Strings(files)
	for _, f := range files {
		if strings.HasPrefix(filepath.Base(f), "finding-") {
			continue // witnesses of open findings are replayed by the driver
		}
		var c C
		if err := loadCase(f, &c); err != nil {
			fmt.Printf("INFRA: bad corpus file %s: %v\n", f, err)
			os.Exit(2)
		}
		if crashy {
			writeCurrent(id, c)
		}
		logCase(c)
		v := check(c)
		rec.record(c, v)
		rec.Replayed++
		if v.Err != nil {
			writeFail(id, c, v.Err)
			t.Fatalf("corpus case %s failed: %v", f, v.Err)
		}
	}
	if os.Getenv("VERIF_CORPUS_ONLY") != "" {
		clearCurrent(id)
		return
	}

	rapid.Check(t, func(rt *rapid.T) {
		c := gen(rt)
		if crashy {
			writeCurrent(id, c)
		}
		logCase(c)
		v := check(c)
		rec.record(c, v)
		if v.Err != nil {
			writeFail(id, c, v.Err)
			if histFile != nil {
				fmt.Printf("HISTORY-FAIL property=%s: %v\n", id, v.Err)
				rec.flush()
				os.Exit(4)
			}
			rt.Fatalf("%v", v.Err)
		}
	})
	if crashy {
		clearCurrent(id)
	}
}

// ---------------------------------------------------------------------------
// watchdog

// finishes runs f on a fresh goroutine and reports whether it returned within d.
// A false result leaves the goroutine behind (Go cannot stop it); callers
// treat that as fatal for the process (hangExit).
func finishes(d time.Duration, f func()) bool {
	done := make(chan struct{})
	go func() {
		defer close(done)
		f()
	}()
	select {
	case <-done:
		return true
	case <-time.After(d):
		return false
	}
}

// hangExit reports a non-returning call: the case is written as the failing
// case and the process exits with status 3; the driver confirms by replaying it
// alone in a fresh process under a longer limit before calling it a violation.
func hangExit(id string, c interface{}, what string) {
	writeFail(id, c, fmt.Errorf("no return within the watchdog limit: %s", what))
	fmt.Printf("HANG property=%s %s\n", id, what)
	os.Exit(3)
}

func watchdogLimit() time.Duration {
	if s := os.Getenv("VERIF_WATCHDOG_S"); s != "" {
		if n, err := time.ParseDuration(s + "s"); err == nil && n > 0 {
			return n
		}
	}
	if os.Getenv("VERIF_REPLAY") != "" {
		return 30 * time.Second
	}
	return 5 * time.Second
}

// catch runs f and converts a panic on this goroutine into an error string.
func catch(f func()) (panicked interface{}) {
	defer func() {
		if e := recover(); e != nil {
			panicked = e
		}
	}()
	f()
	return nil
}

func trunc(s string, n int) string {
	if len(s) <= n {
		return s
	}
	return s[:n] + "…"
}
