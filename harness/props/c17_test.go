package props

import (
	"encoding/json"
	"fmt"
	"sort"
	"strconv"
	"strings"
	"testing"

	"github.com/robfig/soy/ast"
	"github.com/robfig/soy/parse"
	"pgregory.net/rapid"

	"verif/harness/gen"
	"verif/harness/ref"
)

// C17: the source text produced for a parsed expression or print command
// parses again to a structurally identical tree. Two oracles: the round trip
// parse -> String() -> parse (trees compared ignoring positions and source
// spelling), and parser-vs-reference (the first parse equals the generator's
// own tree), which catches errors that are symmetric in both parses.

type C17Case struct {
	Expr       *ref.Expr       `json:"expr"`
	Directives []ref.Directive `json:"directives,omitempty"` // non-nil: tested as a print command
	AsPrint    bool            `json:"as_print,omitempty"`
	Src        string          `json:"src,omitempty"` // a source string instead of a model tree (native fuzzing): round trip only
}

// fromAST converts an implementation tree into the model (canonical spelling).
func fromAST(n ast.Node) (*ref.Expr, error) {
	conv := func(ns ...ast.Node) ([]*ref.Expr, error) {
		out := make([]*ref.Expr, len(ns))
		for i, x := range ns {
			e, err := fromAST(x)
			if err != nil {
				return nil, err
			}
			out[i] = e
		}
		return out, nil
	}
	bin := func(op string, b ast.BinaryOpNode) (*ref.Expr, error) {
		args, err := conv(b.Arg1, b.Arg2)
		return &ref.Expr{Op: op, Args: args}, err
	}
	switch n := n.(type) {
	case *ast.NullNode:
		return &ref.Expr{Op: "null"}, nil
	case *ast.BoolNode:
		return &ref.Expr{Op: "bool", B: n.True}, nil
	case *ast.IntNode:
		return &ref.Expr{Op: "int", I: n.Value}, nil
	case *ast.FloatNode:
		return &ref.Expr{Op: "float", Text: strconv.FormatFloat(n.Value, 'g', -1, 64)}, nil
	case *ast.StringNode:
		return &ref.Expr{Op: "str", S: n.Value}, nil
	case *ast.GlobalNode:
		return &ref.Expr{Op: "global", Name: n.Name}, nil
	case *ast.ListLiteralNode:
		args, err := conv(n.Items...)
		return &ref.Expr{Op: "list", Args: args}, err
	case *ast.MapLiteralNode:
		e := &ref.Expr{Op: "map"}
		var keys []string
		for k := range n.Items {
			keys = append(keys, k)
		}
		sort.Strings(keys)
		for _, k := range keys {
			v, err := fromAST(n.Items[k])
			if err != nil {
				return nil, err
			}
			e.Keys = append(e.Keys, k)
			e.Args = append(e.Args, v)
		}
		return e, nil
	case *ast.FunctionNode:
		args, err := conv(n.Args...)
		return &ref.Expr{Op: "call", Name: n.Name, Args: args}, err
	case *ast.DataRefNode:
		e := &ref.Expr{Op: "ref", Name: n.Key}
		for _, a := range n.Access {
			switch a := a.(type) {
			case *ast.DataRefKeyNode:
				e.Access = append(e.Access, ref.Access{Kind: "key", Key: a.Key, NullSafe: a.NullSafe})
			case *ast.DataRefIndexNode:
				e.Access = append(e.Access, ref.Access{Kind: "index", Index: a.Index, NullSafe: a.NullSafe})
			case *ast.DataRefExprNode:
				x, err := fromAST(a.Arg)
				if err != nil {
					return nil, err
				}
				e.Access = append(e.Access, ref.Access{Kind: "expr", Expr: x, NullSafe: a.NullSafe})
			default:
				return nil, fmt.Errorf("unexpected access node %T", a)
			}
		}
		return e, nil
	case *ast.NotNode:
		args, err := conv(n.Arg)
		return &ref.Expr{Op: "not", Args: args}, err
	case *ast.NegateNode:
		args, err := conv(n.Arg)
		return &ref.Expr{Op: "neg", Args: args}, err
	case *ast.TernNode:
		args, err := conv(n.Arg1, n.Arg2, n.Arg3)
		return &ref.Expr{Op: "tern", Args: args}, err
	case *ast.MulNode:
		return bin("*", n.BinaryOpNode)
	case *ast.DivNode:
		return bin("/", n.BinaryOpNode)
	case *ast.ModNode:
		return bin("%", n.BinaryOpNode)
	case *ast.AddNode:
		return bin("+", n.BinaryOpNode)
	case *ast.SubNode:
		return bin("-", n.BinaryOpNode)
	case *ast.EqNode:
		return bin("==", n.BinaryOpNode)
	case *ast.NotEqNode:
		return bin("!=", n.BinaryOpNode)
	case *ast.GtNode:
		return bin(">", n.BinaryOpNode)
	case *ast.GteNode:
		return bin(">=", n.BinaryOpNode)
	case *ast.LtNode:
		return bin("<", n.BinaryOpNode)
	case *ast.LteNode:
		return bin("<=", n.BinaryOpNode)
	case *ast.OrNode:
		return bin("or", n.BinaryOpNode)
	case *ast.AndNode:
		return bin("and", n.BinaryOpNode)
	case *ast.ElvisNode:
		return bin("?:", n.BinaryOpNode)
	}
	return nil, fmt.Errorf("unexpected node %T", n)
}

// canonical strips spelling from a model tree and applies the lexical rule that
// a minus directly before an unparenthesised decimal literal is part of the literal.
func canonical(e *ref.Expr) *ref.Expr {
	if e == nil {
		return nil
	}
	c := &ref.Expr{Op: e.Op, B: e.B, I: e.I, S: e.S, Name: e.Name, Keys: append([]string(nil), e.Keys...)}
	if e.Op == "float" {
		f, _ := strconv.ParseFloat(e.Text, 64)
		c.Text = strconv.FormatFloat(f, 'g', -1, 64)
	}
	for _, a := range e.Args {
		c.Args = append(c.Args, canonical(a))
	}
	for _, a := range e.Access {
		c.Access = append(c.Access, ref.Access{Kind: a.Kind, NullSafe: a.NullSafe, Key: a.Key, Index: a.Index, Expr: canonical(a.Expr)})
	}
	if e.Op == "neg" {
		a := e.Args[0]
		if !a.Paren && !a.Hex && a.Op == "int" && a.I >= 0 {
			return &ref.Expr{Op: "int", I: -a.I}
		}
		if !a.Paren && a.Op == "float" && !strings.HasPrefix(a.Text, "-") {
			f, _ := strconv.ParseFloat(a.Text, 64)
			return &ref.Expr{Op: "float", Text: strconv.FormatFloat(-f, 'g', -1, 64)}
		}
	}
	if e.Op == "map" { // sorted by key
		idx := make([]int, len(c.Keys))
		for i := range idx {
			idx[i] = i
		}
		sort.Slice(idx, func(i, j int) bool { return c.Keys[idx[i]] < c.Keys[idx[j]] })
		k2, a2 := make([]string, len(idx)), make([]*ref.Expr, len(idx))
		for i, j := range idx {
			k2[i], a2[i] = c.Keys[j], c.Args[j]
		}
		c.Keys, c.Args = k2, a2
	}
	return c
}

func same(a, b *ref.Expr) bool {
	x, _ := json.Marshal(a)
	y, _ := json.Marshal(b)
	return string(x) == string(y)
}

func needsParens(e *ref.Expr) bool {
	found := false
	e.Walk(func(x *ref.Expr) {
		if ref.IsBinary(x.Op) || x.Op == "neg" || x.Op == "not" || x.Op == "tern" {
			for _, a := range x.Args {
				if (ref.IsBinary(a.Op) || a.Op == "tern") && ref.Prec(a.Op) <= ref.Prec(x.Op) {
					found = true
				}
			}
		}
	})
	return found
}

func parsePrint(src string) (*ast.PrintNode, error) {
	f, err := parse.SoyFile("p.soy", "{namespace n}\n/** */\n{template .t}"+src+"{/template}")
	if err != nil {
		return nil, err
	}
	for _, n := range f.Body {
		if t, ok := n.(*ast.TemplateNode); ok {
			for _, c := range t.Body.Nodes {
				if p, ok := c.(*ast.PrintNode); ok {
					return p, nil
				}
			}
		}
	}
	return nil, fmt.Errorf("no print node in %q", src)
}

func checkC17(c C17Case) Verdict {
	if c.Src != "" {
		n1, err := parse.Expr(c.Src)
		if err != nil {
			return ok(false, "source-string:rejected") // the round trip is about expressions the parser accepts
		}
		t1, err := fromAST(n1)
		if err != nil {
			return bad(true, "%v", err)
		}
		printed := n1.String()
		n2, err := parse.Expr(printed)
		if err != nil {
			return bad(true, "expression %q was printed as %q, which does not parse: %v", c.Src, printed, err)
		}
		t2, err := fromAST(n2)
		if err != nil {
			return bad(true, "%v", err)
		}
		if !same(t1, t2) {
			return bad(true, "expression %q prints as %q, which parses to a different expression (%s)", c.Src, printed, gen.PrintExpr(t2))
		}
		return ok(true, "source-string")
	}
	src := gen.PrintExpr(c.Expr)
	nt := needsParens(c.Expr)
	want := canonical(c.Expr)
	if c.AsPrint {
		// the whole print command, with its directive chain
		cmd := ref.Cmd{K: "print", Expr: c.Expr, Directives: c.Directives}
		f := ref.File{Name: "x", Namespace: "n", Templates: []ref.Template{{Name: "t", Body: []ref.Cmd{cmd}}}}
		full := gen.PrintFile(&f)
		i, j := strings.Index(full, "{template .t}")+len("{template .t}"), strings.LastIndex(full, "{/template}")
		tag := full[i:j]
		p1, err := parsePrint(tag)
		if err != nil {
			return bad(nt, "valid print command %s rejected: %v", tag, err)
		}
		printed := p1.String()
		p2, err := parsePrint(printed)
		if err != nil {
			return bad(nt, "print command %s was printed as %s, which does not parse: %v", tag, printed, err)
		}
		sig := func(p *ast.PrintNode) (string, error) {
			e, err := fromAST(p.Arg)
			if err != nil {
				return "", err
			}
			b, _ := json.Marshal(e)
			s := string(b)
			for _, d := range p.Directives {
				s += "|" + d.Name
				for _, a := range d.Args {
					x, err := fromAST(a)
					if err != nil {
						return "", err
					}
					b, _ := json.Marshal(x)
					s += ":" + string(b)
				}
			}
			return s, nil
		}
		s1, e1 := sig(p1)
		s2, e2 := sig(p2)
		if e1 != nil || e2 != nil {
			return bad(nt, "unexpected node: %v %v", e1, e2)
		}
		if s1 != s2 {
			return bad(nt, "print command %s prints as %s, which parses to a different command", tag, printed)
		}
		if again := p1.String(); again != printed {
			return bad(nt, "the same print command printed twice gives %s, then %s", printed, again)
		}
		if s1b, _ := sig(p1); s1b != s1 {
			return bad(nt, "printing the print command %s changed its tree", tag)
		}
		return ok(nt, "print-command")
	}
	n1, err := parse.Expr(src)
	if err != nil {
		return bad(nt, "valid expression %s rejected: %v", src, err)
	}
	t1, err := fromAST(n1)
	if err != nil {
		return bad(nt, "%v", err)
	}
	if !same(t1, want) {
		return bad(nt, "expression %s parsed to a different tree than written\n parsed:   %s\n expected: %s", src, gen.PrintExpr(t1), gen.PrintExpr(want))
	}
	printed := n1.String()
	n2, err := parse.Expr(printed)
	if err != nil {
		return bad(nt, "expression %s was printed as %s, which does not parse: %v", src, printed, err)
	}
	t2, err := fromAST(n2)
	if err != nil {
		return bad(nt, "%v", err)
	}
	if !same(t1, t2) {
		return bad(nt, "expression %s prints as %s, which parses to a different expression (%s)", src, printed, gen.PrintExpr(t2))
	}
	if again := n2.String(); again != printed {
		return bad(nt, "printing is not stable: %s then %s", printed, again)
	}
	// printing reads the tree: the same node prints the same text again and is still the same tree
	if again := n1.String(); again != printed {
		return bad(nt, "the same node printed twice gives %s, then %s", printed, again)
	}
	if t1b, err := fromAST(n1); err != nil || !same(t1, t1b) {
		return bad(nt, "printing expression %s changed its tree (%v)", src, err)
	}
	return ok(nt, "expression")
}

// c17Spellings are literal spellings at the edges of what the scanner and the number conversions take
// (a spelling the parser rejects is not judged; one it accepts must survive the round trip).
var c17Spellings = []string{"1e999", "-1e999", "1e309", "1.8e308", "1.7976931348623157e308", "-1.7976931348623157e308", "1e-999", "5e-324", "4.9e-324", "2.2250738585072014e-308",
	"0.1e1", "1E5", "1e+5", "1e-5", "1.0e0", "0.0", "-0.0", "0e0", "9223372036854775807", "-9223372036854775808", "9223372036854775808", "0x7FFFFFFFFFFFFFFF", "0xFFFFFFFFFFFFFFFF", "0x0", "00", "007",
	"123456789012345678901234567890", "1.", ".5", "1.5.2", "'\\u0000'", "'\\uD834\\uDD1E'", "'\\uFFFF'", "1e21", "1e-7", "123456789.125", "0.000001", "0.0000001", "100000000000000000000.0", "1000000000000000000000.0"}

func genC17(t *rapid.T) C17Case {
	if rapid.IntRange(0, 19).Draw(t, "spelling") == 0 {
		a := rapid.SampledFrom(c17Spellings).Draw(t, "a")
		switch rapid.IntRange(0, 5).Draw(t, "ctx") {
		case 0:
			return C17Case{Src: a}
		case 1:
			return C17Case{Src: "[" + a + ", " + rapid.SampledFrom(c17Spellings).Draw(t, "b") + "]"}
		case 2:
			return C17Case{Src: a + " " + rapid.SampledFrom([]string{"+", "-", "*", "/", "%", "<", "==", "?:"}).Draw(t, "op") + " " + rapid.SampledFrom(c17Spellings).Draw(t, "b")}
		case 3:
			return C17Case{Src: "-" + a}
		case 4:
			return C17Case{Src: "f(" + a + ")"}
		}
		return C17Case{Src: "$x[" + a + "] ? " + a + " : -(" + a + ")"}
	}
	g := &gen.G{T: t}
	c := C17Case{Expr: g.SyntaxExpr(rapid.IntRange(0, scale(4, 6)).Draw(t, "depth"))}
	if rapid.IntRange(0, 4).Draw(t, "asPrint") == 0 {
		c.AsPrint = true
		for i, n := 0, rapid.IntRange(0, 3).Draw(t, "ndir"); i < n; i++ {
			d := ref.Directive{Name: rapid.SampledFrom([]string{"noAutoescape", "truncate", "insertWordBreaks", "escapeHtml", "custom", "id"}).Draw(t, "dir")}
			for j, m := 0, rapid.IntRange(0, 2).Draw(t, "nargs"); j < m; j++ {
				d.Args = append(d.Args, g.SyntaxExpr(1))
			}
			c.Directives = append(c.Directives, d)
		}
	}
	return c
}

func TestC17(t *testing.T) { runPropCrashy(t, "C17", genC17, checkC17) }
