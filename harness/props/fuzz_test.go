package props

import (
	"testing"
	"unicode/utf8"
)

// Native go fuzz targets (thorough tier only). The oracle sits inside the
// target; a failing input is written as the property's Case so the driver can
// replay it through the ordinary checkCase path.

func fuzzFail(t *testing.T, id string, c interface{}, v Verdict) {
	if v.Err != nil {
		writeFail(id, c, v.Err)
		t.Fatalf("%v", v.Err)
	}
}

func FuzzParseFile(f *testing.F) {
	for _, s := range validCorpus() {
		if len(s) > 4000 {
			s = s[:4000]
		}
		f.Add([]byte(s))
	}
	for _, frag := range tagDict {
		f.Add([]byte(wrapLevel(1, frag, false)))
		f.Add([]byte(wrapLevel(2, frag, true)))
	}
	f.Fuzz(func(t *testing.T, data []byte) {
		if len(data) > 1<<16 {
			return
		}
		c := mkC05("file", "native-fuzz", string(data))
		fuzzFail(t, "C05", c, checkC05(c))
	})
}

func FuzzParseExpr(f *testing.F) {
	for _, a := range exprDict {
		f.Add([]byte(a))
		for _, b := range exprDict[:20] {
			f.Add([]byte(a + " " + b))
		}
	}
	f.Fuzz(func(t *testing.T, data []byte) {
		if len(data) > 1<<14 {
			return
		}
		c := mkC05("expr", "native-fuzz", string(data))
		fuzzFail(t, "C05", c, checkC05(c))
	})
}

func FuzzExprRoundTrip(f *testing.F) {
	for _, s := range []string{"1 + 2 * 3", "(1 + 2) * 3", "-(1)", "not $a and $b or $c", "$a ?: $b ? 1 : 2", "['a': 1, 'b\\'c': [1, 2]]", "1.0", "2e3", "$a?.b[0]?[1].c", "f(1, 'x')", "-$x.y", "0x1F", "a.b.c", "'\\u00e9\\n'", "1 - -1", "$a ? $b ? 1 : 2 : 3", "[:]", "[]", "not (not true)", "1 < 2 == true"} {
		f.Add(s)
	}
	f.Fuzz(func(t *testing.T, src string) {
		if len(src) > 1<<12 || src == "" || !utf8.ValidString(src) {
			return // Soy sources are text: the round trip is judged on valid UTF-8 only
		}
		c := C17Case{Src: src}
		fuzzFail(t, "C17", c, checkC17(c))
	})
}
