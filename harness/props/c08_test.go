package props

import (
	"bytes"
	"encoding/json"
	"fmt"
	"strings"
	"testing"

	"github.com/robfig/soy/ast"
	"github.com/robfig/soy/data"
	"github.com/robfig/soy/soyhtml"
	"github.com/robfig/soy/soyjs"
	"github.com/robfig/soy/soymsg"
	"pgregory.net/rapid"

	"verif/harness/gen"
	"verif/harness/ref"
)

// C08: rendering is pure. A case is a history of operations over one compiled
// bundle; after every step the deep digests of the compiled registry, of every
// data map, of the injected data and of the message bundle equal their values
// at compile time, and the result of render(template, data, configuration) is
// the one first observed for that triple.

type C08Op struct {
	Op     string `json:"op"`             // render renderMsgs js jsMsgs config
	Tmpl   int    `json:"tmpl,omitempty"` // template index / file index
	Data   int    `json:"data,omitempty"` // data set index
	Config int    `json:"config,omitempty"`
	Via    int    `json:"via,omitempty"` // 1: through Tofu.Render instead of Renderer.Execute (when no injected data is involved)
}

type C08Case struct {
	Prog  gen.ProgCase           `json:"prog"`
	Datas []map[string]ref.Value `json:"datas"` // extra data sets of arbitrary shape (failing renders)
	Ops   []C08Op                `json:"ops"`
}

// registry configurations: user-extensible registries incl. obligatory directives
var c08Configs = [][]string{nil, {"verifBang"}, {"verifBang", "verifBang"}, {"noAutoescape"}, {"verifNoSuch"}}

// perturbData returns data of the same shape with every scalar changed.
func perturbData(d map[string]ref.Value) map[string]ref.Value {
	var pv func(v ref.Value) ref.Value
	pv = func(v ref.Value) ref.Value {
		switch v.K {
		case ref.String:
			return ref.S(v.S + "~")
		case ref.Int:
			return ref.I(v.I + 1)
		case ref.Bool:
			return ref.B(!v.B)
		case ref.List:
			out := make([]ref.Value, len(v.L))
			for i := range v.L {
				out[len(v.L)-1-i] = pv(v.L[i])
			}
			return ref.L(out...)
		case ref.Map:
			out := map[string]ref.Value{}
			for k, x := range v.M {
				out[k] = pv(x)
			}
			return ref.M(out)
		}
		return v
	}
	out := map[string]ref.Value{}
	for k, v := range d {
		out[k] = pv(v)
	}
	return out
}

// mapBundle is a message bundle backed by a plain map (identity translations).
type mapBundle struct{ msgs map[uint64]*soymsg.Message }

func (b *mapBundle) Locale() string                    { return "xx" }
func (b *mapBundle) Message(id uint64) *soymsg.Message { return b.msgs[id] }
func (b *mapBundle) PluralCase(n int) int {
	if n == 1 {
		return 0
	}
	return 1
}

func collectMsgs(n ast.Node, f func(*ast.MsgNode)) {
	if n == nil {
		return
	}
	if m, ok := n.(*ast.MsgNode); ok {
		f(m)
		// (a call inside the message may hold further messages in the content of its params)
		for _, c := range m.Body.Children() {
			collectMsgs(c, f)
		}
		return
	}
	if p, ok := n.(ast.ParentNode); ok {
		for _, c := range p.Children() {
			if c != nil && !isNilNode(c) {
				collectMsgs(c, f)
			}
		}
	}
}

func isNilNode(n ast.Node) bool {
	defer func() { recover() }()
	return fmt.Sprintf("%p", n) == "%!p(<nil>)" || n == nil
}

func identityBundle(cb *compiled) *mapBundle {
	b := &mapBundle{msgs: map[uint64]*soymsg.Message{}}
	// the parts of a plural case body: its text (marked) and its placeholders
	caseParts := func(body ast.ParentNode) []soymsg.Part {
		var parts []soymsg.Part
		for _, c := range body.Children() {
			switch c := c.(type) {
			case *ast.RawTextNode:
				parts = append(parts, soymsg.RawTextPart{Text: "«" + string(c.Text) + "»"})
			case *ast.MsgPlaceholderNode:
				parts = append(parts, soymsg.PlaceholderPart{Name: c.Name})
			}
		}
		return parts
	}
	for _, t := range cb.reg.Templates {
		collectMsgs(t.Node, func(m *ast.MsgNode) {
			var plural *ast.MsgPluralNode
			for _, c := range m.Body.Children() {
				if p, ok := c.(*ast.MsgPluralNode); ok {
					plural = p
				}
			}
			if m.ID == 0 {
				return // (a registry built without the message pass: its messages have no ids, hence no translations)
			}
			if plural == nil {
				b.msgs[m.ID] = soymsg.NewMessage(m.ID, "«"+soymsg.PlaceholderString(m)+"»")
				return
			}
			// a plural message: the forms "one" (the source's {case 1} if it has one) and "other"
			one := plural.Default
			for _, pc := range plural.Cases {
				if pc.Value == 1 {
					one = pc.Body
				}
			}
			b.msgs[m.ID] = &soymsg.Message{ID: m.ID, Parts: []soymsg.Part{soymsg.PluralPart{VarName: plural.VarName, Cases: []soymsg.PluralCase{
				{Spec: soymsg.PluralSpec{Type: soymsg.PluralSpecOne}, Parts: caseParts(one)},
				{Spec: soymsg.PluralSpec{Type: soymsg.PluralSpecOther}, Parts: caseParts(plural.Default)},
			}}}}
		})
	}
	return b
}

// The application's own function and print directive (every test binary of this package has them):
// verifFn returns the number of its arguments, verifBang appends "!" (and does not cancel autoescaping).
func init() {
	soyhtml.PrintDirectives["verifBang"] = soyhtml.PrintDirective{Apply: func(v data.Value, _ []data.Value) data.Value { return data.String(v.String() + "!") }, ValidArgLengths: []int{0}}
	soyhtml.Funcs["verifFn"] = soyhtml.Func{Apply: func(a []data.Value) data.Value { return data.Int(len(a)) }, ValidArgLengths: []int{0, 1}}
	soyhtml.Funcs["verifTag"] = soyhtml.Func{Apply: func(a []data.Value) data.Value { return data.String("<" + string(a[0].(data.String)) + ">") }, ValidArgLengths: []int{1}}
	// and their JavaScript counterparts (jsCustomPrelude defines the directive's function)
	soyjs.Funcs["verifFn"] = soyjs.Func{Name: "verifFn", Apply: func(js soyjs.JSWriter, args []ast.Node) { js.Write(fmt.Sprintf("(%d)", len(args))) }, ValidArgLengths: []int{0, 1}}
	soyjs.Funcs["verifTag"] = soyjs.Func{Name: "verifTag", Apply: func(js soyjs.JSWriter, args []ast.Node) { js.Write("('<' + (", args[0], ") + '>')") }, ValidArgLengths: []int{1}}
	soyjs.PrintDirectives["verifBang"] = soyjs.PrintDirective{Name: "verifBang", CancelAutoescape: false}
	// the string function once more under a second key (same Func, same Name)
	soyhtml.Funcs["aTag"] = soyhtml.Funcs["verifTag"]
	soyjs.Funcs["aTag"] = soyjs.Funcs["verifTag"]
}

// jsCustomPrelude is loaded before generated JavaScript that may use the application's directive.
var jsCustomPrelude = jsFile{Name: "verif-custom.js", Src: "function verifBang(v) { return String(v) + '!'; }\n"}

func genC08(t *rapid.T) C08Case {
	g := &gen.G{T: t, P: gen.Profile{Unicode: true, HTMLChars: true, Directives: true, Custom: rapid.Bool().Draw(t, "custom")}}
	c := C08Case{Prog: gen.GenProgram(g, gen.ProgOpts{MaxTemplates: 4, MaxDepth: 3, MaxCmds: 4, ExprDepth: 2, PosWeight: 2, CallWeight: 8, ScopeWeight: 5, MinTemplates: 2, Valueless: true, AllData: true})}
	for i, n := 0, rapid.IntRange(1, 3).Draw(t, "ndata"); i < n; i++ {
		c.Datas = append(c.Datas, g.AnyValue(2).M)
		if c.Datas[i] == nil {
			c.Datas[i] = map[string]ref.Value{"p": g.AnyValue(1)}
		}
	}
	for i, n := 0, rapid.IntRange(4, scale(25, 60)).Draw(t, "nops"); i < n; i++ {
		op := C08Op{Op: rapid.SampledFrom([]string{"render", "render", "render", "renderMsgs", "js", "jsMsgs", "config", "renderFail", "rows", "keys", "mapFail"}).Draw(t, "op")}
		op.Via = rapid.IntRange(0, 1).Draw(t, "via")
		op.Tmpl = rapid.IntRange(0, 7).Draw(t, "tmpl")
		op.Data = rapid.IntRange(0, 3).Draw(t, "data")
		op.Config = rapid.IntRange(0, len(c08Configs)-1).Draw(t, "config")
		c.Ops = append(c.Ops, op)
	}
	return c
}

// c08Rows is a template rendered from Go structs (Tofu.Render converts them): two struct types that are
// both called "row" (see localRowA / localRowB) must each show their own fields, whatever came before.
const c08Keys = "\n/** @param m */\n{template .zzKeyOrder}{foreach $k in keys($m)}{$k}={$m[$k]};{/foreach}{let $lit: ['b': 1, 'a': 2, 'd': 3, 'c': 4] /}{foreach $k in keys($lit)}{$k}{/foreach}{/template}\n"

const c08MapFail = "\n/**\n * @param? a\n * @param? b\n * @param? c\n * @param? d */\n{template .zzMapFail}\n{let $m: ['k1': $a.p,\n 'k2': $b.q,\n 'k3': $c.r,\n 'k4': $d.s] /}{$m}{/template}\n"

const c08Rows = "\n/**\n * @param? name\n * @param? qty\n * @param? title\n * @param? count */\n{template .zzRows}{$name ?: '-'}|{$qty ?: '-'}|{$title ?: '-'}|{$count ?: '-'}{/template}\n"

func checkC08(c C08Case) Verdict {
	names, srcs := gen.Sources(&c.Prog.Prog)
	if len(srcs) > 0 {
		srcs[0] += c08Rows + c08Keys + c08MapFail
	}
	// (part of the bundles are put together through the lower-level API, with and without the message pass)
	switch hashCase(c) % 6 {
	case 0:
		handBuilt = 1
	case 1:
		handBuilt = 2
	}
	noIDs := handBuilt == 2
	cb, err, pn := compileBundle(names, srcs, c.Prog.Prog.Globals)
	handBuilt = 0
	if err != nil || pn != nil {
		return excluded("does not compile (C01/C02 matter)")
	}
	// user-extensible registries: installed for the case, removed afterwards
	savedObl := soyhtml.ObligatoryPrintDirectiveNames
	defer func() { soyhtml.ObligatoryPrintDirectiveNames = savedObl }()

	// the templates and their data sets
	var fqs []string
	for _, f := range c.Prog.Prog.Files {
		for _, t := range f.Templates {
			fqs = append(fqs, f.Namespace+"."+t.Name)
		}
	}
	var dataSets []data.Map
	for _, fq := range fqs {
		dataSets = append(dataSets, toDataMap(c.Prog.AllData[fq]))
	}
	for i := range dataSets {
		// (maps the application built itself may hold Go nils - entries no template of the bundle reads:
		// they are the application's own, like every other entry)
		if dataSets[i] != nil && i%2 == 0 {
			dataSets[i]["zzNilEntry"] = nil
			dataSets[i]["zzNilItems"] = data.List{nil, data.Map{"zzInner": nil}}
		}
	}
	for _, d := range c.Datas {
		dataSets = append(dataSets, toDataMap(d))
	}
	// a second valid data set per template: the same shape, every value changed (what a later request
	// brings; anything kept from the render of the first set shows as the first set's values)
	pbase := len(dataSets)
	perturbed := make([]map[string]ref.Value, len(fqs))
	for i, fq := range fqs {
		perturbed[i] = perturbData(c.Prog.AllData[fq])
		dataSets = append(dataSets, toDataMap(perturbed[i]))
	}
	ij := toDataMap(c.Prog.IJ)
	// the injected data of an earlier request, which the application keeps: a renderer that is given it
	// and then the data of this request ("Inject sets the given data map") renders with the latter only
	earlier := data.Map{"zzEarlier": data.String("earlier request")}
	for k2 := range ij {
		if len(k2)%2 == 0 {
			earlier[k2] = data.String("earlier:" + k2)
		}
	}
	msgs := identityBundle(cb)

	digests := func() [4]uint64 {
		return [4]uint64{deepDigest(cb.reg), deepDigest(dataSets), deepDigest([]data.Map{ij, earlier}), deepDigest(msgs)}
	}
	hasPlural, hasMarks := false, noIDs || strings.ContainsAny(strings.Join(srcs, ""), "«»")
	for _, t := range cb.reg.Templates {
		collectMsgs(t.Node, func(m *ast.MsgNode) {
			for _, ch := range m.Body.Children() {
				if _, isPl := ch.(*ast.MsgPluralNode); isPl {
					hasPlural = true
				}
			}
		})
	}
	for _, d := range c.Prog.AllData {
		for _, v := range d {
			b, _ := json.Marshal(v)
			hasMarks = hasMarks || strings.ContainsAny(string(b), "«»")
		}
	}
	d0 := digests()
	type key struct {
		op           string
		tmpl, d, cfg int
	}
	first := map[key]string{}
	refOut := map[[2]int]ref.Result{}
	refMarked := map[int]ref.Result{}
	renderers := map[string]*soyhtml.Renderer{}
	config := 0
	repeats := 0
	var failure error
	step := func(i int, op C08Op) {
		var result string
		k := key{op.Op, 0, 0, config}
		switch op.Op {
		case "config":
			config = op.Config
			soyhtml.ObligatoryPrintDirectiveNames = append([]string{}, c08Configs[config]...)
			return
		case "rows":
			var buf bytes.Buffer
			var rerr error
			val, want := localRowA("n", 3), "n|3|-|-"
			if op.Data%2 == 1 {
				val, want = localRowB("t", 4), "-|-|t|4"
			}
			p := catch(func() { rerr = cb.tofu.Render(&buf, c.Prog.Prog.Files[0].Namespace+".zzRows", val) })
			if len(c08Configs[config]) > 0 {
				return // (obligatory directives change the text; the conversion is judged under the default configuration)
			}
			if p != nil || rerr != nil || buf.String() != want {
				failure = fmt.Errorf("step %d: Tofu.Render of a struct value (%T %+v) wrote %q (error %v, panic %v), want %q - it depends on what was rendered before", i, val, val, buf.String(), rerr, p, want)
			}
			return
		case "keys":
			// keys() of a map with several entries: the language promises no particular order, but a
			// render is a function of its data - the same map gives the same text every time
			var buf bytes.Buffer
			var rerr error
			m := data.Map{}
			for j := 0; j < 4+op.Data%5; j++ {
				m[fmt.Sprintf("key%d", j*7%11)] = data.Int(j)
			}
			p := catch(func() {
				rerr = cb.tofu.NewRenderer(c.Prog.Prog.Files[0].Namespace+".zzKeyOrder").Execute(&buf, data.Map{"m": m})
			})
			k.d = op.Data % 5
			result = fmt.Sprintf("out=%q err=%v panic=%v", buf.String(), rerr != nil, p != nil)
		case "mapFail":
			// a render that fails while it evaluates the values of a map literal, each of which fails: the
			// same render fails the same way every time (the error is what the caller gets instead of output)
			var buf bytes.Buffer
			var rerr error
			p := catch(func() {
				rerr = cb.tofu.NewRenderer(c.Prog.Prog.Files[0].Namespace+".zzMapFail").Execute(&buf, data.Map{})
			})
			etext := ""
			if rerr != nil {
				etext = strings.SplitN(rerr.Error(), "\n", 2)[0]
			}
			result = fmt.Sprintf("out=%q err=%q panic=%v", buf.String(), etext, p != nil)
		case "renderFail":
			// a render whose writer stops accepting bytes: its own result is C12's matter, here it is
			// one more thing that may have happened before the renders that are compared
			ti := op.Tmpl % len(fqs)
			w := &faultWriter{failCall: -1, capacity: op.Config * 3, sticky: true}
			catch(func() {
				if op.Via == 1 {
					cb.tofu.Render(w, fqs[ti], dataSets[ti])
					return
				}
				rd := cb.tofu.NewRenderer(fqs[ti])
				if c.Prog.HasIJ {
					rd.Inject(ij)
				}
				rd.Execute(w, dataSets[ti])
			})
			k.tmpl, k.d = ti, -1-op.Config
			result = "n/a"
			delete(first, k)
		case "render", "renderMsgs":
			ti := op.Tmpl % len(fqs)
			di := ti
			if op.Data > 0 {
				di = len(fqs) + (op.Data-1)%len(c.Datas)
			}
			if op.Data%3 == 2 {
				di = pbase + ti
			}
			k.tmpl, k.d = ti, di
			var buf bytes.Buffer
			var rerr error
			p := catch(func() {
				if op.Via == 1 && op.Op == "render" && !c.Prog.HasIJ {
					rerr = cb.tofu.Render(&buf, fqs[ti], dataSets[di])
					return
				}
				// (a Renderer may be kept and executed again: one per template and kind is reused)
				rk := fmt.Sprintf("%s/%d", op.Op, ti)
				rd := renderers[rk]
				if rd == nil || op.Via == 1 {
					rd = cb.tofu.NewRenderer(fqs[ti])
					// (the setters in either order; their results are used, as in a chained call)
					if op.Op == "renderMsgs" && op.Tmpl%2 == 0 {
						rd = rd.WithMessages(msgs)
					}
					if c.Prog.HasIJ {
						if op.Data%2 == 1 {
							rd = rd.Inject(earlier)
						}
						rd = rd.Inject(ij)
					}
					if op.Op == "renderMsgs" && op.Tmpl%2 == 1 {
						rd = rd.WithMessages(msgs)
					}
					renderers[rk] = rd
				}
				rerr = rd.Execute(&buf, dataSets[di])
			})
			errText := ""
			if rerr != nil {
				errText = "error" // the text quotes goroutine stacks for runtime errors: only the fact is compared
			}
			result = fmt.Sprintf("out=%q err=%s panic=%v", buf.String(), errText, p != nil)
			// with the identity bundle (every message text wrapped in marks) the output is the plain output
			// plus marks, whatever other messages were rendered before
			if op.Op == "renderMsgs" && di == ti && len(c08Configs[config]) == 0 && p == nil && !hasPlural && !hasMarks {
				want, cached := refMarked[ti]
				if !cached {
					want = ref.RenderMarked(&c.Prog.Prog, fqs[ti], c.Prog.AllData[fqs[ti]], c.Prog.IJ, c.Prog.HasIJ)
					refMarked[ti] = want
				}
				if want.Status == ref.OK && (rerr != nil || ref.CanonRefs(buf.String()) != ref.CanonRefs(want.Out)) {
					failure = fmt.Errorf("step %d: render of %s with the bundle of marked identity translations gives %q (error %v); the language defines %q", i, fqs[ti], trunc(buf.String(), 400), rerr != nil, trunc(want.Out, 400))
				}
			}
			// a render is a pure function of (template, data): it must also equal what the reference
			// interpreter defines, whatever was rendered before (in this history or earlier in the process)
			if op.Op == "render" && (di == ti || di == pbase+ti) && p == nil {
				// (under every configuration: the obligatory directives are part of the reference render)
				rk, rdata := ti, c.Prog.AllData[fqs[ti]]
				if di != ti {
					rk, rdata = -1-ti, perturbed[ti]
				}
				want, cached := refOut[[2]int{rk, config}]
				if !cached {
					want = ref.RenderObligatory(&c.Prog.Prog, fqs[ti], rdata, c.Prog.IJ, c.Prog.HasIJ, c08Configs[config])
					refOut[[2]int{rk, config}] = want
				}
				switch {
				case want.Status == ref.OK && (rerr != nil || ref.CanonRefs(buf.String()) != ref.CanonRefs(want.Out)):
					failure = fmt.Errorf("step %d: render of %s with obligatory directives %v gives %q (error %v); the language defines %q - the result depends on what was rendered before", i, fqs[ti], c08Configs[config], trunc(buf.String(), 400), rerr != nil, trunc(want.Out, 400))
				case want.Status == ref.Valueless && rerr == nil:
					failure = fmt.Errorf("step %d: render of %s returned no error for a valueless expression", i, fqs[ti])
				}
			}
		case "js", "jsMsgs":
			fi := op.Tmpl % len(cb.reg.SoyFiles)
			k.tmpl = fi
			var buf bytes.Buffer
			opts := soyjs.Options{}
			if op.Op == "jsMsgs" {
				opts.Messages = msgs
			}
			var jerr error
			p := catch(func() { jerr = soyjs.Write(&buf, cb.reg.SoyFiles[fi], opts) })
			result = fmt.Sprintf("js=%q err=%v panic=%v", buf.String(), jerr, p)
		}
		if prev, seen := first[k]; seen {
			repeats++
			if prev != result {
				failure = fmt.Errorf("step %d (%s tmpl=%d data=%d config=%v): result differs from the first time this was done\n first: %s\n now:   %s", i, op.Op, k.tmpl, k.d, c08Configs[config], trunc(prev, 600), trunc(result, 600))
			}
		} else {
			first[k] = result
		}
		if d := digests(); d != d0 && failure == nil {
			which := []string{"compiled registry", "data maps", "injected data", "message bundle"}
			for j := range d {
				if d[j] != d0[j] {
					failure = fmt.Errorf("step %d (%s tmpl=%d data=%d config=%v) modified the %s", i, op.Op, k.tmpl, k.d, c08Configs[config], which[j])
				}
			}
		}
	}
	if !finishes(4*watchdogLimit(), func() {
		for i, op := range c.Ops {
			step(i, op)
			if failure != nil {
				return
			}
		}
	}) {
		hangExit("C08", c, "a history of renders")
	}
	if failure != nil {
		return bad(true, "%v\n%s", failure, showSources(names, srcs))
	}
	return ok(repeats > 0, fmt.Sprintf("ops:%s", bucket(len(c.Ops))), fmt.Sprintf("repeats:%s", bucket(repeats)))
}

func TestC08(t *testing.T) {
	fileRoute = true
	defer func() { fileRoute = false }()
	runPropCrashy(t, "C08", genC08, checkC08)
}

var _ = strings.Contains
