package props

import (
	"sort"
	"bytes"
	"fmt"
	"github.com/robfig/soy/soyhtml"
	"math"
	"strconv"
	"sync"
	"testing"
	"time"

	"github.com/robfig/soy/data"
	"pgregory.net/rapid"

	"verif/harness/ref"
)

// C20: Go values convert faithfully to Soy data and the value laws hold.
//
// A Recipe is a JSON-able description of how to build a Go value; build()
// returns the Go value together with the Soy value the statement says it must
// convert to. The oracle is that expected value (structural equality),
// idempotence, and the equality / truthiness / printing laws on pairs.

type Recipe struct {
	T     string   `json:"t"`
	B     bool     `json:"b,omitempty"`
	I     int64    `json:"i,omitempty"`
	U     uint64   `json:"u,omitempty"`
	F     string   `json:"f,omitempty"`
	S     string   `json:"s,omitempty"`
	Keys  []string `json:"keys,omitempty"`
	Elems []Recipe `json:"elems,omitempty"`
}

type C20Case struct {
	A, B       Recipe
	LowerCamel bool
	TimeFormat string
}

type (
	MyInt   int32
	MyStr   string
	MyFloat float32
	MyBool  bool
	S1      struct {
		Name   string
		Age    int
		hidden int
		Score  float64
	}
	S2 struct {
		S1
		Ptr   *S1
		URL   string
		IDs   []int
		Attrs map[string]interface{}
		Any   interface{}
		ok    bool
	}
	S3 struct {
		ÉCole string
		X_y   int
		ABC   string
		T     time.Time
		M     Marsh
		PM    *Marsh
		Tags  []string
		K     MyStr
	}
	Marsh struct{ V int }
)

// VMap is a named map whose elements are Soy values already.
type VMap map[string]data.Value

// NilMarsh marshals itself to nil.
type NilMarsh struct{}

func (NilMarsh) MarshalValue() data.Value { return nil }

// PMarsh marshals itself through a method with a pointer receiver.
type PMarsh struct{ V int }

func (m *PMarsh) MarshalValue() data.Value { return data.String("pmarsh:" + strconv.Itoa(m.V)) }

func (m Marsh) MarshalValue() data.Value { return data.String("marsh:" + strconv.Itoa(m.V)) }

// named scalar types that marshal themselves
type (
	Level int
	Label string
)

func (l Level) MarshalValue() data.Value {
	switch l {
	case 0:
		return data.String("low")
	case 1:
		return data.String("high")
	}
	return data.Null{}
}

// localRowA and localRowB return values of two different struct types that are both called "row"
// (types declared inside functions: the same package and name, other fields).
func localRowA(s string, n int) interface{} {
	type row struct {
		Name string
		Qty  int
	}
	return row{s, n}
}

func localRowB(s string, n int) interface{} {
	type row struct {
		Title string
		Count int
	}
	return &row{s, n}
}

// Bag is a marshaler of slice kind whose Soy form is a map.
type Bag []string

func (b Bag) MarshalValue() data.Value {
	first := ""
	if len(b) > 0 {
		first = b[0]
	}
	return data.Map{"size": data.Int(len(b)), "first": data.String(first)}
}

// Attrs is a marshaler of map kind whose Soy form is a list of its entries.
type Attrs map[string]string

func (a Attrs) MarshalValue() data.Value {
	keys := make([]string, 0, len(a))
	for k := range a {
		keys = append(keys, k)
	}
	sort.Strings(keys)
	out := data.List{}
	for _, k := range keys {
		out = append(out, data.String(k+"="+a[k]))
	}
	return out
}

func (l Label) MarshalValue() data.Value {
	return data.List{data.String("label"), data.String(string(l))}
}

// timeFmt is the layout a conversion uses: the option, or ISO-8601 when the option is empty (so the
// documentation of StructOptions.TimeFormat).
func timeFmt(layout string) string {
	if layout == "" {
		return time.RFC3339
	}
	return layout
}

func levelValue(i int64) ref.Value {
	switch Level(i) {
	case 0:
		return ref.S("low")
	case 1:
		return ref.S("high")
	}
	return ref.N()
}

func parseF(s string) float64 {
	f, _ := strconv.ParseFloat(s, 64)
	return f
}

func key(name string, lower bool) string {
	if !lower {
		return name
	}
	switch name { // spelled out, not computed: the statement says "lowerCamel names"
	case "Name":
		return "name"
	case "Age":
		return "age"
	case "Score":
		return "score"
	case "S1":
		return "s1"
	case "Ptr":
		return "ptr"
	case "URL":
		return "uRL"
	case "IDs":
		return "iDs"
	case "Attrs":
		return "attrs"
	case "Any":
		return "any"
	case "ÉCole":
		return "éCole"
	case "X_y":
		return "x_y"
	case "ABC":
		return "aBC"
	case "T":
		return "t"
	case "M":
		return "m"
	case "PM":
		return "pM"
	case "Tags":
		return "tags"
	case "Title":
		return "title"
	case "Count":
		return "count"
	case "Qty":
		return "qty"
	case "K":
		return "k"
	}
	panic("unknown field " + name)
}

func key2(name string, lower bool) string {
	if !lower {
		return name
	}
	return map[string]string{"L": "l", "Ls": "ls", "P": "p"}[name]
}

func el(r Recipe, i int) Recipe {
	if i < len(r.Elems) {
		return r.Elems[i]
	}
	return Recipe{T: "nil"}
}

func mkS1(r Recipe) (S1, func(bool) ref.Value) {
	s := S1{Name: r.S, Age: int(r.I), hidden: 7, Score: parseF(r.F)}
	return s, func(lower bool) ref.Value {
		return ref.M(map[string]ref.Value{
			key("Name", lower): ref.S(s.Name), key("Age", lower): ref.I(int64(s.Age)), key("Score", lower): ref.F(s.Score)})
	}
}

// build returns the Go value and the Soy value it must convert to.
func build(r Recipe, c *C20Case) (interface{}, ref.Value) {
	lower := c.LowerCamel
	switch r.T {
	case "nil":
		return nil, ref.N()
	case "bool":
		return r.B, ref.B(r.B)
	case "mybool":
		return MyBool(r.B), ref.B(r.B)
	case "int":
		return int(r.I), ref.I(r.I)
	case "int8":
		return int8(r.I), ref.I(int64(int8(r.I)))
	case "int16":
		return int16(r.I), ref.I(int64(int16(r.I)))
	case "int32":
		return int32(r.I), ref.I(int64(int32(r.I)))
	case "int64":
		return r.I, ref.I(r.I)
	case "myint":
		return MyInt(r.I), ref.I(int64(int32(r.I)))
	case "uint":
		if r.U > math.MaxInt64 {
			return uint(r.U), ref.F(float64(r.U)) // (beyond the signed range: the nearest float, never a negative number)
		}
		return uint(r.U), ref.I(int64(r.U))
	case "uint8":
		return uint8(r.U), ref.I(int64(uint8(r.U)))
	case "uint16":
		return uint16(r.U), ref.I(int64(uint16(r.U)))
	case "uint32":
		return uint32(r.U), ref.I(int64(uint32(r.U)))
	case "uintptr":
		if uint64(uintptr(r.U)) > math.MaxInt64 {
			return uintptr(r.U), ref.F(float64(uintptr(r.U)))
		}
		return uintptr(r.U), ref.I(int64(uintptr(r.U)))
	case "array_int":
		a := [3]int{int(r.I), 2, int(int32(r.U))}
		return a, ref.L(ref.I(int64(int(r.I))), ref.I(2), ref.I(int64(int32(r.U))))
	case "array_empty":
		return [0]string{}, ref.L()
	case "uint64":
		if r.U > math.MaxInt64 {
			return r.U, ref.F(float64(r.U))
		}
		return r.U, ref.I(int64(r.U))
	case "float64":
		return parseF(r.F), ref.F(parseF(r.F))
	case "float32":
		return float32(parseF(r.F)), ref.F(float64(float32(parseF(r.F))))
	case "myfloat":
		return MyFloat(parseF(r.F)), ref.F(float64(float32(parseF(r.F))))
	case "string":
		return r.S, ref.S(r.S)
	case "mystr":
		return MyStr(r.S), ref.S(r.S)
	case "time":
		t := time.Unix(r.I, int64(r.U)).In(time.FixedZone("", int(parseF(r.F))))
		return t, ref.S(t.Format(timeFmt(c.TimeFormat)))
	case "slice_time":
		// one instant in several zones, side by side (equal instants, different texts)
		base := time.Unix(r.I, int64(r.U))
		var ts []time.Time
		var l []ref.Value
		for _, z := range r.Keys {
			off, _ := strconv.Atoi(z)
			t := base.In(time.FixedZone("", off))
			if off == 1 {
				t = base.UTC()
			}
			ts = append(ts, t)
			l = append(l, ref.S(t.Format(timeFmt(c.TimeFormat))))
		}
		if len(ts) == 0 {
			return []time.Time{}, ref.L()
		}
		return ts, ref.L(l...)
	case "slice_any":
		s := make([]interface{}, len(r.Elems))
		l := make([]ref.Value, len(r.Elems))
		for i, e := range r.Elems {
			s[i], l[i] = build(e, c)
		}
		return s, ref.L(l...)
	case "slice_int":
		s := make([]int, len(r.Elems))
		l := make([]ref.Value, len(r.Elems))
		for i, e := range r.Elems {
			s[i], l[i] = int(e.I), ref.I(e.I)
		}
		return s, ref.L(l...)
	case "slice_str":
		s := make([]string, len(r.Elems))
		l := make([]ref.Value, len(r.Elems))
		for i, e := range r.Elems {
			s[i], l[i] = e.S, ref.S(e.S)
		}
		return s, ref.L(l...)
	case "big":
		// a long slice whose elements are told apart by their index (r.S: the element type)
		n := int(r.U)
		l := make([]ref.Value, n)
		s1 := func(i int) (S1, ref.Value) {
			v, exp := mkS1(Recipe{S: "row" + strconv.Itoa(i), I: int64(i), F: strconv.Itoa(i % 7)})
			return v, exp(lower)
		}
		switch r.S {
		case "s1":
			s := make([]S1, n)
			for i := range s {
				s[i], l[i] = s1(i)
			}
			return s, ref.L(l...)
		case "ptr_s1":
			s := make([]*S1, n)
			for i := range s {
				if i%5 == 3 {
					l[i] = ref.N()
					continue
				}
				v, e := s1(i)
				s[i], l[i] = &v, e
			}
			return s, ref.L(l...)
		case "time":
			s := make([]time.Time, n)
			for i := range s {
				s[i] = time.Unix(r.I%4102444800+int64(i)*86400, 0).UTC()
				l[i] = ref.S(s[i].Format(timeFmt(c.TimeFormat)))
			}
			return s, ref.L(l...)
		case "marsh":
			s := make([]Marsh, n)
			for i := range s {
				s[i], l[i] = Marsh{i}, ref.S("marsh:"+strconv.Itoa(i))
			}
			return s, ref.L(l...)
		case "any":
			s := make([]interface{}, n)
			for i := range s {
				if i%2 == 0 {
					s[i], l[i] = s1(i)
				} else {
					s[i], l[i] = i, ref.I(int64(i))
				}
			}
			return s, ref.L(l...)
		case "map":
			s := make([]map[string]int, n)
			for i := range s {
				s[i], l[i] = map[string]int{"i": i}, ref.M(map[string]ref.Value{"i": ref.I(int64(i))})
			}
			return s, ref.L(l...)
		}
		s := make([]int, n)
		for i := range s {
			s[i], l[i] = i, ref.I(int64(i))
		}
		return s, ref.L(l...)
	case "slice_nil":
		return []string(nil), ref.L()
	case "slice_ptr":
		s := make([]*S1, len(r.Elems))
		l := make([]ref.Value, len(r.Elems))
		for i, e := range r.Elems {
			if e.T == "nil" {
				l[i] = ref.N()
				continue
			}
			v, exp := mkS1(e)
			s[i], l[i] = &v, exp(lower)
		}
		return s, ref.L(l...)
	case "map_any", "map_named":
		m := map[string]interface{}{}
		mn := map[MyStr]interface{}{}
		e := map[string]ref.Value{}
		for i, k := range r.Keys {
			v, x := build(el(r, i), c)
			m[k], mn[MyStr(k)], e[k] = v, v, x
		}
		if r.T == "map_named" {
			return mn, ref.M(e)
		}
		return m, ref.M(e)
	case "map_values", "named_map_values", "slice_values":
		// collections whose static element type is data.Value: their elements are values already, or nil
		mv := map[string]data.Value{}
		var sv []data.Value
		e := map[string]ref.Value{}
		var l []ref.Value
		for i, k := range r.Keys {
			if el(r, i).T == "nil" {
				mv[k], e[k] = nil, ref.N()
				sv, l = append(sv, nil), append(l, ref.N())
				continue
			}
			_, x := build(el(r, i), c)
			mv[k], e[k] = toData(x), x
			sv, l = append(sv, toData(x)), append(l, x)
		}
		switch r.T {
		case "named_map_values":
			return VMap(mv), ref.M(e)
		case "slice_values":
			if sv == nil {
				return []data.Value{}, ref.L()
			}
			return sv, ref.L(l...)
		}
		return mv, ref.M(e)
	case "map_int":
		m := map[string]int{}
		e := map[string]ref.Value{}
		for i, k := range r.Keys {
			m[k], e[k] = int(el(r, i).I), ref.I(el(r, i).I)
		}
		return m, ref.M(e)
	case "map_nil":
		return map[string]interface{}(nil), ref.M(map[string]ref.Value{})
	case "ptr":
		v, e := build(el(r, 0), c)
		switch x := v.(type) { // a typed pointer where Go lets us take one
		case int:
			return &x, e
		case string:
			return &x, e
		case float64:
			return &x, e
		case bool:
			return &x, e
		case S1:
			return &x, e
		case S2:
			return &x, e
		case S3:
			return &x, e
		case time.Time:
			return &x, e
		case []interface{}:
			return &x, e
		case map[string]interface{}:
			return &x, e
		case *S1:
			return &x, e
		case *int:
			return &x, e
		case *PMarsh:
			return &x, e
		case *Marsh:
			return &x, e
		}
		return &v, e // *interface{}
	case "local_a":
		return localRowA(r.S, int(r.I%1000)), ref.M(map[string]ref.Value{key("Name", lower): ref.S(r.S), key("Qty", lower): ref.I(int64(int(r.I % 1000)))})
	case "local_b":
		return localRowB(r.S, int(r.I%1000)), ref.M(map[string]ref.Value{key("Title", lower): ref.S(r.S), key("Count", lower): ref.I(int64(int(r.I % 1000)))})
	case "bag", "ptr_bag":
		bag := Bag(r.Keys)
		first := ""
		if len(bag) > 0 {
			first = bag[0]
		}
		exp := ref.M(map[string]ref.Value{"size": ref.I(int64(len(bag))), "first": ref.S(first)})
		if r.T == "ptr_bag" {
			return &bag, exp
		}
		return bag, exp
	case "nil_bag":
		// the nil value of a slice-kind marshaler still marshals itself (only a nil pointer is null)
		return Bag(nil), ref.M(map[string]ref.Value{"size": ref.I(0), "first": ref.S("")})
	case "attrs", "nil_attrs":
		exp := ref.L()
		var a Attrs
		if r.T == "attrs" {
			a = Attrs{}
			for _, k := range r.Keys {
				a[k] = r.S
			}
			ks := append([]string{}, r.Keys...)
			sort.Strings(ks)
			for i, k := range ks {
				if i == 0 || ks[i-1] != k {
					exp.L = append(exp.L, ref.S(k+"="+r.S))
				}
			}
		}
		return a, exp
	case "nilptr_struct":
		return (*S1)(nil), ref.N()
	case "nilptr_int":
		return (*int)(nil), ref.N()
	case "nilptr_ptr":
		var p *S2
		return &p, ref.N()
	case "nilptr_marsh":
		return (*Marsh)(nil), ref.N()
	case "s1":
		s, e := mkS1(r)
		return s, e(lower)
	case "s2":
		inner, ie := mkS1(el(r, 0))
		s := S2{S1: inner, URL: r.S, ok: true}
		e := map[string]ref.Value{key("S1", lower): ie(lower), key("URL", lower): ref.S(r.S)}
		if p := el(r, 1); p.T == "nil" {
			e[key("Ptr", lower)] = ref.N()
		} else {
			pv, pe := mkS1(p)
			s.Ptr, e[key("Ptr", lower)] = &pv, pe(lower)
		}
		if ids := el(r, 2); ids.T == "nil" {
			e[key("IDs", lower)] = ref.L()
		} else {
			l := []ref.Value{}
			s.IDs = []int{}
			for _, x := range ids.Elems {
				s.IDs = append(s.IDs, int(x.I))
				l = append(l, ref.I(x.I))
			}
			e[key("IDs", lower)] = ref.L(l...)
		}
		if at := el(r, 3); at.T == "map_any" {
			v, x := build(at, c)
			s.Attrs, e[key("Attrs", lower)] = v.(map[string]interface{}), x
		} else {
			e[key("Attrs", lower)] = ref.M(map[string]ref.Value{})
		}
		s.Any, e[key("Any", lower)] = build(el(r, 4), c)
		return s, ref.M(e)
	case "s3":
		t := time.Unix(r.I, 0).UTC()
		s := S3{ÉCole: r.S, X_y: int(r.U), ABC: r.S + "!", T: t, M: Marsh{int(r.I % 100)}, K: MyStr(r.S)}
		e := map[string]ref.Value{
			key("ÉCole", lower): ref.S(r.S), key("X_y", lower): ref.I(int64(int(r.U))), key("ABC", lower): ref.S(r.S + "!"),
			key("T", lower): ref.S(t.Format(timeFmt(c.TimeFormat))), key("M", lower): ref.S("marsh:" + strconv.Itoa(int(r.I%100))),
			key("K", lower): ref.S(r.S),
		}
		if r.B {
			s.PM = &Marsh{3}
			e[key("PM", lower)] = ref.S("marsh:3")
		} else {
			e[key("PM", lower)] = ref.N()
		}
		if len(r.Keys) > 0 {
			s.Tags = r.Keys
			l := []ref.Value{}
			for _, k := range r.Keys {
				l = append(l, ref.S(k))
			}
			e[key("Tags", lower)] = ref.L(l...)
		} else {
			e[key("Tags", lower)] = ref.L()
		}
		return s, ref.M(e)
	case "level":
		return Level(r.I % 3), levelValue(r.I % 3)
	case "label":
		return Label(r.S), ref.L(ref.S("label"), ref.S(r.S))
	case "slice_level":
		s := make([]Level, len(r.Elems))
		l := make([]ref.Value, len(r.Elems))
		for i, e := range r.Elems {
			s[i], l[i] = Level(e.I%3), levelValue(e.I%3)
		}
		return s, ref.L(l...)
	case "slice_label":
		s := make([]Label, len(r.Elems))
		l := make([]ref.Value, len(r.Elems))
		for i, e := range r.Elems {
			s[i], l[i] = Label(e.S), ref.L(ref.S("label"), ref.S(e.S))
		}
		return s, ref.L(l...)
	case "slice_marsh":
		s := make([]Marsh, len(r.Elems))
		l := make([]ref.Value, len(r.Elems))
		for i, e := range r.Elems {
			s[i], l[i] = Marsh{int(e.I % 100)}, ref.S("marsh:"+strconv.Itoa(int(e.I%100)))
		}
		return s, ref.L(l...)
	case "map_level":
		m := map[string]Level{}
		e := map[string]ref.Value{}
		for i, k := range r.Keys {
			m[k], e[k] = Level(el(r, i).I%3), levelValue(el(r, i).I%3)
		}
		return m, ref.M(e)
	case "struct_level":
		type withLevel struct {
			L  Level
			Ls []Level
			P  *Level
		}
		lv := Level(r.I % 3)
		return withLevel{L: lv, Ls: []Level{lv, 1}, P: &lv}, ref.M(map[string]ref.Value{key2("L", lower): levelValue(r.I % 3), key2("Ls", lower): ref.L(levelValue(r.I%3), levelValue(1)), key2("P", lower): levelValue(r.I % 3)})
	case "marsh":
		return Marsh{int(r.I % 1000)}, ref.S("marsh:" + strconv.Itoa(int(r.I%1000)))
	case "ptr_marsh":
		return &Marsh{int(r.I % 1000)}, ref.S("marsh:" + strconv.Itoa(int(r.I%1000)))
	case "nil_marsh":
		// a marshaler that has nothing to say returns nil: that is the null value, not an invalid one
		if r.B {
			return &NilMarsh{}, ref.N()
		}
		return NilMarsh{}, ref.N()
	case "ptr_pmarsh":
		// a marshaler whose method has a pointer receiver: the pointer is the marshaler
		return &PMarsh{int(r.I % 1000)}, ref.S("pmarsh:" + strconv.Itoa(int(r.I%1000)))
	case "value":
		// an existing Soy value passes through unchanged
		v, e := build(el(r, 0), c)
		_ = v
		return toData(e), e
	}
	panic("unknown recipe type " + r.T)
}

var (
	c20Ints   = []int64{0, 1, -1, 2, 7, -128, 127, 255, 256, 65535, 1 << 31, -(1 << 31), 1<<53 - 1, 1 << 53, 1<<53 + 1, math.MaxInt64, math.MinInt64}
	c20Floats = []string{"0", "-0", "0.5", "-1.5", "1", "2", "1e21", "1e-7", "3.25", "NaN", "+Inf", "-Inf", "9007199254740992", "9007199254740993", "1.7976931348623157e308", "5e-324", "255", "0.1"}
	c20Strs   = []string{"", "a", "0", "false", "null", "é", "<b>", "日本", "a b", "x\x00y", "\xff"}
	c20Leaf   = []string{"local_a", "local_b", "bag", "ptr_bag", "nil_bag", "attrs", "nil_attrs", "nil", "bool", "mybool", "int", "int8", "int16", "int32", "int64", "myint", "uint", "uint8", "uint16", "uint32", "uint64", "uintptr", "array_int", "array_empty",
		"float64", "float32", "myfloat", "string", "mystr", "time", "slice_nil", "map_nil", "nilptr_struct", "nilptr_int", "nilptr_ptr", "nilptr_marsh",
		"s1", "s3", "marsh", "ptr_marsh", "ptr_pmarsh", "nil_marsh", "slice_int", "slice_str", "map_int", "level", "label", "slice_level", "slice_label", "slice_marsh", "map_level", "struct_level", "slice_time"}
	c20Node = []string{"slice_any", "map_any", "map_named", "ptr", "s2", "value", "slice_ptr", "map_values", "named_map_values", "slice_values"}
)

func genLeafFields(t *rapid.T, r *Recipe) {
	r.B = rapid.Bool().Draw(t, "b")
	if rapid.Bool().Draw(t, "specialInt") {
		r.I = rapid.SampledFrom(c20Ints).Draw(t, "i")
	} else {
		r.I = rapid.Int64().Draw(t, "i")
	}
	r.U = uint64(rapid.Int64Range(0, math.MaxInt64).Draw(t, "u"))
	if rapid.IntRange(0, 9).Draw(t, "hugeU") == 0 {
		r.U = rapid.SampledFrom([]uint64{math.MaxUint64, 1 << 63, 1<<63 + 1, math.MaxUint64 - 1, 1<<63 + 1<<62, 1<<64 - 1<<11}).Draw(t, "u3")
	} else if rapid.Bool().Draw(t, "smallU") {
		r.U = uint64(rapid.IntRange(0, 70000).Draw(t, "u2"))
	}
	if rapid.IntRange(0, 3).Draw(t, "specialFloat") > 0 {
		r.F = rapid.SampledFrom(c20Floats).Draw(t, "f")
	} else {
		r.F = strconv.FormatFloat(rapid.Float64().Draw(t, "f"), 'g', -1, 64)
	}
	if rapid.Bool().Draw(t, "specialStr") {
		r.S = rapid.SampledFrom(c20Strs).Draw(t, "s")
	} else {
		r.S = rapid.String().Draw(t, "s")
	}
}

func genRecipe(t *rapid.T, depth int) Recipe {
	var r Recipe
	if depth <= 0 || rapid.IntRange(0, 2).Draw(t, "leaf") == 0 {
		r.T = rapid.SampledFrom(c20Leaf).Draw(t, "type")
	} else {
		r.T = rapid.SampledFrom(c20Node).Draw(t, "type")
	}
	genLeafFields(t, &r)
	switch r.T {
	case "attrs":
		r.Keys = rapid.SliceOfN(rapid.SampledFrom(c20Strs), 0, 3).Draw(t, "attrKeys")
		r.S = rapid.SampledFrom(c20Strs).Draw(t, "attrVal")
	case "bag", "ptr_bag":
		r.Keys = rapid.SliceOfN(rapid.SampledFrom(c20Strs), 0, 3).Draw(t, "bag")
	case "time":
		r.I = rapid.Int64Range(-62135596800, 253402300799).Draw(t, "sec")
		r.U = uint64(rapid.IntRange(0, 999999999).Draw(t, "nsec"))
		r.F = strconv.Itoa(rapid.SampledFrom([]int{0, 3600, -18000, 19800, 45 * 60}).Draw(t, "zone"))
	case "slice_time":
		r.I = rapid.Int64Range(-62135596800, 253402300799).Draw(t, "sec")
		r.U = uint64(rapid.IntRange(0, 999999999).Draw(t, "nsec"))
		r.Keys = rapid.SliceOfN(rapid.SampledFrom([]string{"0", "1", "3600", "-18000", "19800", "2700"}), 0, 4).Draw(t, "zones")
	case "s3":
		r.I = rapid.Int64Range(0, 4102444800).Draw(t, "sec")
		r.U = uint64(rapid.IntRange(0, 1000).Draw(t, "xy"))
		r.Keys = rapid.SliceOfN(rapid.SampledFrom(c20Strs), 0, 3).Draw(t, "tags")
	case "slice_int", "slice_str", "map_int", "slice_level", "slice_label", "slice_marsh", "map_level":
		n := rapid.IntRange(0, 4).Draw(t, "n")
		for i := 0; i < n; i++ {
			var e Recipe
			genLeafFields(t, &e)
			r.Elems = append(r.Elems, e)
			r.Keys = append(r.Keys, rapid.SampledFrom([]string{"a", "b", "key", "", "é", "A", "x y"}).Draw(t, "k"))
		}
	case "slice_any", "map_any", "map_named", "map_values", "named_map_values", "slice_values":
		n := rapid.IntRange(0, 4).Draw(t, "n")
		for i := 0; i < n; i++ {
			r.Elems = append(r.Elems, genRecipe(t, depth-1))
			r.Keys = append(r.Keys, rapid.SampledFrom([]string{"a", "b", "key", "", "é", "A", "x y"}).Draw(t, "k"))
		}
	case "slice_ptr":
		n := rapid.IntRange(0, 3).Draw(t, "n")
		for i := 0; i < n; i++ {
			e := Recipe{T: "nil"}
			if rapid.Bool().Draw(t, "nonnil") {
				e.T = "s1"
				genLeafFields(t, &e)
			}
			r.Elems = append(r.Elems, e)
		}
	case "ptr", "value":
		r.Elems = []Recipe{genRecipe(t, depth-1)}
	case "s2":
		inner := Recipe{T: "s1"}
		genLeafFields(t, &inner)
		ptr := Recipe{T: "nil"}
		if rapid.Bool().Draw(t, "ptr") {
			ptr.T = "s1"
			genLeafFields(t, &ptr)
		}
		ids := Recipe{T: "nil"}
		if rapid.Bool().Draw(t, "ids") {
			ids.T = "slice_int"
			for i, n := 0, rapid.IntRange(0, 3).Draw(t, "n"); i < n; i++ {
				ids.Elems = append(ids.Elems, Recipe{T: "int", I: int64(rapid.IntRange(-5, 5).Draw(t, "id"))})
			}
		}
		attrs := Recipe{T: "nil"}
		if rapid.Bool().Draw(t, "attrs") {
			attrs.T = "map_any"
			for i, n := 0, rapid.IntRange(0, 3).Draw(t, "n"); i < n; i++ {
				attrs.Elems = append(attrs.Elems, genRecipe(t, depth-1))
				attrs.Keys = append(attrs.Keys, rapid.SampledFrom([]string{"a", "b", "key"}).Draw(t, "k"))
			}
		}
		r.Elems = []Recipe{inner, ptr, ids, attrs, genRecipe(t, depth-1)}
	}
	return r
}

func genC20(t *rapid.T) C20Case {
	d := scale(3, 4)
	c := C20Case{
		A:          genRecipe(t, d),
		B:          genRecipe(t, d),
		LowerCamel: rapid.Bool().Draw(t, "lowerCamel"),
		TimeFormat: rapid.SampledFrom([]string{time.RFC3339, "2006-01-02", time.RFC1123Z, time.RFC3339Nano, ""}).Draw(t, "timeFormat"),
	}
	if rapid.IntRange(0, 119).Draw(t, "big") == 57 {
		// a long slice (tables of thousands of rows are ordinary template data)
		c.A = Recipe{T: "big",
			S: rapid.SampledFrom([]string{"s1", "ptr_s1", "time", "marsh", "any", "map", "int"}).Draw(t, "bigElem"),
			U: uint64(rapid.SampledFrom([]int{1000, 1023, 1024, 1025, 4095, 4096, 4097, 5000, 8192, 10000, 16384, 40000, 65536, 70000}).Draw(t, "bigLen")),
			I: rapid.Int64Range(0, 4102444800).Draw(t, "bigSec")}
	}
	return c
}

var (
	c20TofuOnce sync.Once
	c20TofuVal  *soyhtml.Tofu
)

// c20Tofu is a compiled bundle with one template without params.
func c20Tofu() *soyhtml.Tofu {
	c20TofuOnce.Do(func() {
		cb, err, pn := compileBundle([]string{"c20.soy"}, []string{"{namespace c20}\n/** */\n{template .t}ok{/template}\n/**\n * @param? name\n * @param? Name\n * @param? when\n * @param? When */\n{template .fields autoescape=\"false\"}{$name ?: ''}|{$Name ?: ''}|{$When ?: ''}|{$when ?: ''}{/template}\n"}, nil)
		if err != nil || pn != nil {
			panic(fmt.Sprint("harness: ", err, pn))
		}
		c20TofuVal = cb.tofu
	})
	return c20TofuVal
}

func convert(opts data.StructOptions, v interface{}) (out data.Value, err error) {
	if p := catch(func() { out = data.NewWith(opts, v) }); p != nil {
		return nil, fmt.Errorf("conversion panicked: %v", p)
	}
	if out == nil {
		return nil, fmt.Errorf("conversion returned a nil Value")
	}
	return out, nil
}

func checkC20(c C20Case) Verdict {
	opts := data.StructOptions{LowerCamel: c.LowerCamel, TimeFormat: c.TimeFormat}
	var vals [2]data.Value
	var exps [2]ref.Value
	for i, r := range []Recipe{c.A, c.B} {
		goval, exp := build(r, &c)
		exps[i] = exp
		v, err := convert(opts, goval)
		if err != nil {
			return bad(true, "%s: %v", r.T, err)
		}
		got, okv := fromData(v)
		if !okv {
			return bad(true, "%s: conversion produced a non-Soy value %T", r.T, v)
		}
		if !ref.DeepEqual(got, exp) {
			if got.K == ref.List && exp.K == ref.List && len(got.L) == len(exp.L) {
				for j := range got.L {
					if !ref.DeepEqual(got.L[j], exp.L[j]) {
						return bad(true, "%s (%s, %d elements): element %d converted to %#v, want %#v", r.T, r.S, len(exp.L), j, got.L[j], exp.L[j])
					}
				}
			}
			return bad(true, "%s: converted to %s, want %s", r.T, trunc(fmt.Sprintf("%#v", got), 2000), trunc(fmt.Sprintf("%#v", exp), 2000))
		}
		// converting again (the result, and the Go value) changes nothing
		v2, err := convert(opts, v)
		if err != nil {
			return bad(true, "%s: second conversion: %v", r.T, err)
		}
		got2, _ := fromData(v2)
		if !ref.DeepEqual(got2, exp) {
			return bad(true, "%s: converting the result again gave %#v, want %#v", r.T, got2, exp)
		}
		v3, err := convert(opts, goval)
		if err != nil {
			return bad(true, "%s: repeated conversion: %v", r.T, err)
		}
		got3, _ := fromData(v3)
		if !ref.DeepEqual(got3, exp) {
			return bad(true, "%s: repeated conversion gave %#v, want %#v", r.T, got3, exp)
		}
		// Tofu.Render converts its argument the same way: it takes exactly the values that convert to a map
		if exp.K != ref.Null {
			var buf bytes.Buffer
			var rerr error
			if pn := catch(func() { rerr = c20Tofu().Render(&buf, "c20.t", goval) }); pn != nil {
				return bad(true, "%s: Tofu.Render panicked on a value that converts to %s: %v", r.T, exp.K, pn)
			}
			if exp.K == ref.Map && (rerr != nil || buf.String() != "ok") {
				return bad(true, "%s: Tofu.Render rejects a value that converts to a map (%#v): wrote %q, error %v", r.T, exp, buf.String(), rerr)
			}
			if exp.K != ref.Map && rerr == nil {
				return bad(true, "%s: Tofu.Render accepted a value that converts to %s, not to a map", r.T, exp.K)
			}
		}
		// truthiness table
		if v.Truthy() != exp.Truthy() {
			return bad(true, "%s: Truthy(%#v) = %v, language table says %v", r.T, exp, v.Truthy(), exp.Truthy())
		}
		// printing is deterministic
		var first string
		for k := 0; k < 4; k++ {
			var s string
			src := v
			if k == 3 {
				src = v3
			}
			if p := catch(func() { s = src.String() }); p != nil {
				return bad(true, "%s: String() panicked: %v", r.T, p)
			}
			if k == 0 {
				first = s
			} else if s != first {
				return bad(true, "%s: String() not deterministic: %q then %q", r.T, first, s)
			}
		}
		vals[i] = v
	}
	// the options belong to one conversion: the same Go values converted under other options (only the
	// time format differs; both settings differ) follow those, and the first options still work afterwards
	for _, alt := range []data.StructOptions{{LowerCamel: c.LowerCamel, TimeFormat: time.Kitchen}, {LowerCamel: !c.LowerCamel, TimeFormat: time.RFC822}, opts} {
		c2 := c
		c2.LowerCamel, c2.TimeFormat = alt.LowerCamel, alt.TimeFormat
		for _, r := range []Recipe{c.A, c.B} {
			goval, exp := build(r, &c2)
			v, err := convert(alt, goval)
			if err != nil {
				return bad(true, "%s under options %+v: %v", r.T, alt, err)
			}
			if got, _ := fromData(v); !ref.DeepEqual(got, exp) {
				return bad(true, "%s converted under options %+v (after a conversion under %+v) gave %#v, want %#v", r.T, alt, opts, got, exp)
			}
		}
	}
	// Tofu.Render converts with data.DefaultStructOptions as they are when it is called ("the caller may
	// update those options to change the behavior of this function"), not as they were when the Tofu was made
	{
		saved := data.DefaultStructOptions
		data.DefaultStructOptions = opts
		when := time.Unix(1000000000, 0).UTC()
		var b1, b2 bytes.Buffer
		var e1, e2 error
		pn := catch(func() {
			e1 = c20Tofu().Render(&b1, "c20.fields", S1{Name: "nm", Age: 3})
			e2 = c20Tofu().Render(&b2, "c20.fields", map[string]interface{}{"when": when})
		})
		data.DefaultStructOptions = saved
		want1 := "nm|||"
		if !c.LowerCamel {
			want1 = "|nm||"
		}
		want2 := "|||" + when.Format(timeFmt(c.TimeFormat))
		if pn != nil || e1 != nil || e2 != nil || b1.String() != want1 || b2.String() != want2 {
			return bad(true, "Tofu.Render with data.DefaultStructOptions = %+v (set after the Tofu was built) wrote %q and %q (errors %v %v, panic %v), want %q and %q", opts, b1.String(), b2.String(), e1, e2, pn, want1, want2)
		}
	}
	// equality laws on the pair (and each value with itself)
	for _, p := range [][2]int{{0, 1}, {0, 0}, {1, 1}} {
		a, b := vals[p[0]], vals[p[1]]
		ea, eb := exps[p[0]], exps[p[1]]
		var ab, ba bool
		if pn := catch(func() { ab = a.Equals(b); ba = b.Equals(a) }); pn != nil {
			return bad(true, "Equals panicked on %#v, %#v: %v", ea, eb, pn)
		}
		if ab != ba {
			return bad(true, "equality not symmetric: (%#v).Equals(%#v)=%v but reverse=%v", ea, eb, ab, ba)
		}
		if want, specified := ref.StrictEquals(ea, eb); specified && want != ab {
			return bad(true, "(%#v).Equals(%#v)=%v, language says %v", ea, eb, ab, want)
		}
	}
	mixed := exps[0].K != exps[1].K
	nested := exps[0].Depth() >= 2 || exps[1].Depth() >= 2
	classes := []string{"a:" + c.A.T, "kind:" + exps[0].K.String() + "/" + exps[1].K.String()}
	if mixed {
		classes = append(classes, "pair-mixes-kinds")
	}
	if nested {
		classes = append(classes, "nested>=2")
	}
	return ok(mixed || nested, classes...)
}

func TestC20(t *testing.T) { runProp(t, "C20", genC20, checkC20) }
