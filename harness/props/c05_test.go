package props

import (
	"fmt"
	"os"
	"path/filepath"
	"regexp"
	"strconv"
	"strings"
	"testing"
	"time"

	"github.com/robfig/soy/ast"
	"github.com/robfig/soy/parse"
	"pgregory.net/rapid"

	"verif/harness/gen"
)

// C05: parsing any byte string, as a file or as a standalone expression,
// returns a tree or an error: no panic, no endless loop, no blocking, in a
// number of steps proportional to the input.

type C05Case struct {
	Kind  string `json:"kind"`  // file | expr
	Input []byte `json:"input"` // raw bytes (base64 in JSON)
	Show  string `json:"show"`  // the same, quoted, for the reader
	From  string `json:"from"`  // which generator family produced it
	// Stretch, when set, replaces Input by a family of inputs of growing size (the "time proportional
	// to the input" clause): Pre + Unit*k + Mid + Close*k + Post, parsed at k = K and k = 8K.
	Stretch *C05Stretch `json:"stretch,omitempty"`
}

type C05Stretch struct {
	Name  string `json:"name"`
	Pre   string `json:"pre"`
	Unit  string `json:"unit"`
	Mid   string `json:"mid,omitempty"`
	Close string `json:"close,omitempty"`
	Post  string `json:"post"`
	K     int    `json:"k"`
	Level int    `json:"level"` // wrapLevel of the stretched text; -1: the text is the whole file
}

func (s *C05Stretch) input(k int) string {
	body := s.Pre + strings.Repeat(s.Unit, k) + s.Mid + strings.Repeat(s.Close, k) + s.Post
	if s.Level < 0 {
		return body
	}
	return wrapLevel(s.Level, body, true)
}

// c05Stretches: one entry per scanning / parsing loop that walks a run of input.
var c05Stretches = []C05Stretch{
	{Name: "string, escape at the end", Pre: "{'", Unit: "a", Post: "\\n'}", Level: 1},
	{Name: "string, escapes throughout", Pre: "{'", Unit: "\\n", Post: "'}", Level: 1},
	{Name: "string, non-ASCII then escape", Pre: "{'", Unit: "é", Post: "\\t'}", Level: 1},
	{Name: "string without escapes", Pre: "{'", Unit: "ab", Post: "'}", Level: 1},
	{Name: "quoted attribute expression", Pre: "{call .t data=\"$x", Unit: ".a", Post: "\"/}", Level: 1},
	{Name: "msg description", Pre: "{msg desc=\"", Unit: "d ", Post: "\"}m{/msg}", Level: 1},
	{Name: "text", Unit: "word ", Level: 1},
	{Name: "text with line breaks", Unit: "a\n  ", Level: 1},
	{Name: "text with tags and line breaks", Unit: "<b>\n", Level: 1},
	{Name: "text with CR LF", Unit: "a\r\n", Level: 1},
	{Name: "white space", Unit: "\n \t", Post: "x", Level: 1},
	{Name: "invalid UTF-8 text", Unit: "\xff", Level: 1},
	{Name: "sum", Pre: "{$x", Unit: " + 1", Post: "}", Level: 1},
	{Name: "key chain", Pre: "{$x", Unit: ".a", Post: "}", Level: 1},
	{Name: "index chain", Pre: "{$x", Unit: "[0]", Post: "}", Level: 1},
	{Name: "null-safe chain", Pre: "{$x", Unit: "?.a", Post: "}", Level: 1},
	{Name: "list literal", Pre: "{[", Unit: "1, ", Post: "1]}", Level: 1},
	{Name: "map literal", Pre: "{[", Unit: "'k': 1, ", Post: "'z': 2]}", Level: 1},
	{Name: "function arguments", Pre: "{f(", Unit: "1, ", Post: "1)}", Level: 1},
	{Name: "call params", Pre: "{call .t}", Unit: "{param a: 1 /}", Post: "{/call}", Level: 1},
	{Name: "call params with layout", Pre: "{call .t}\n", Unit: "  {param a: 1 /}\n", Post: "{/call}", Level: 1},
	{Name: "block comment", Pre: "/*", Unit: "x", Post: "*/", Level: 1},
	{Name: "block comment of stars", Pre: "/*", Unit: "*", Post: "*/", Level: 1},
	{Name: "line comment", Pre: " //", Unit: "x", Post: "\n", Level: 1},
	{Name: "many line comments", Unit: " // c\n", Level: 1},
	{Name: "soydoc params", Pre: "{namespace ns}\n/**\n", Unit: " * @param x\n", Post: " */\n{template .t}{$x}{/template}\n", Level: -1},
	{Name: "literal block", Pre: "{literal}", Unit: "x{", Post: "{/literal}", Level: 1},
	{Name: "css name", Pre: "{css ", Unit: "a", Post: "}", Level: 1},
	{Name: "msg body", Pre: "{msg desc=\"d\"}", Unit: "word <b>x</b> {$x} ", Post: "{/msg}", Level: 1},
	{Name: "directive chain", Pre: "{$x", Unit: "|id", Post: "}", Level: 1},
	{Name: "directive argument", Pre: "{$x|truncate:", Unit: "1+", Post: "1}", Level: 1},
	{Name: "dotted namespace name", Pre: "{namespace a", Unit: ".b", Post: "}\n", Level: -1},
	{Name: "dotted alias name", Pre: "{namespace a}\n{alias a", Unit: ".b", Post: "}\n", Level: -1},
	{Name: "dotted call target", Pre: "{call a", Unit: ".b", Post: " /}", Level: 1},
	{Name: "dotted template name", Pre: "{namespace a}\n{template .t", Unit: ".b", Post: "}x{/template}\n", Level: -1},
	{Name: "chain of additions in a print", Pre: "{1", Unit: "+1", Post: "}", Level: 1},
	{Name: "chain of additions in a quoted attribute", Pre: "{call .t data=\"1", Unit: "+1", Post: "\" /}", Level: 1},
	{Name: "chain of ands in an if", Pre: "{if $x", Unit: " and $x", Post: "}y{/if}", Level: 1},
	{Name: "nested parentheses", Pre: "{", Unit: "(", Mid: "1", Close: ")", Post: "}", Level: 1},
	{Name: "nested lists", Pre: "{", Unit: "[", Mid: "1", Close: "]", Post: "}", Level: 1},
	{Name: "nested if blocks", Unit: "{if $x}", Mid: "y", Close: "{/if}", Level: 1},
	{Name: "nested loops", Unit: "{foreach $i in $x}", Mid: "y", Close: "{/foreach}", Level: 1},
	{Name: "ternary chain", Pre: "{$x", Unit: " ? 1 : $x", Post: "}", Level: 1},
	{Name: "elvis chain", Pre: "{$x", Unit: " ?: $x", Post: "}", Level: 1},
	{Name: "not chain", Pre: "{", Unit: "not ", Post: "$x}", Level: 1},
	{Name: "minus chain", Pre: "{", Unit: "- ", Post: "1}", Level: 1},
	{Name: "header param type", Pre: "{@param y: ", Unit: "a|", Post: "b}{$y}", Level: 1},
	{Name: "switch cases", Pre: "{switch $x}", Unit: "{case 1}a", Post: "{/switch}", Level: 1},
	{Name: "case values", Pre: "{switch $x}{case ", Unit: "1, ", Post: "1}a{/switch}", Level: 1},
	{Name: "if branches", Pre: "{if $x}a", Unit: "{elseif $x}b", Post: "{/if}", Level: 1},
	{Name: "digits", Pre: "{", Unit: "1", Post: "}", Level: 1},
	{Name: "hex digits", Pre: "{0x", Unit: "F", Post: "}", Level: 1},
	{Name: "fraction digits", Pre: "{1.", Unit: "5", Post: "}", Level: 1},
	{Name: "identifier", Pre: "{$", Unit: "a", Post: "}", Level: 1},
	{Name: "global name", Pre: "{", Unit: "a.", Post: "b}", Level: 1},
	{Name: "print commands", Unit: "{$x}", Level: 1},
	{Name: "special character commands", Unit: "{sp}{\\n}", Level: 1},
	{Name: "templates", Pre: "{namespace ns}\n", Unit: "/** */\n{template .t}x{/template}\n", Level: -1},
	{Name: "aliases", Pre: "{namespace ns}\n", Unit: "{alias a.b}\n", Post: "/** */\n{template .t}x{/template}\n", Level: -1},
	{Name: "unterminated string", Pre: "{'", Unit: "a", Level: 1},
	{Name: "unterminated comment", Pre: "/*", Unit: "x", Level: 1},
	{Name: "unterminated literal", Pre: "{literal}", Unit: "x", Level: 1},
	{Name: "error after a long text", Unit: "word ", Post: "{if}", Level: 1},
	{Name: "stray brace after a long text", Unit: "word\n", Post: "}", Level: 1},
	{Name: "expression: sum", Unit: "1 + ", Post: "1", Level: -2},
	{Name: "expression: string with a late escape", Pre: "'", Unit: "a", Post: "\\n'", Level: -2},
	{Name: "expression: list", Pre: "[", Unit: "1,", Post: "1]", Level: -2},
	{Name: "expression: arguments", Pre: "f(", Unit: "1,", Post: "1)", Level: -2},
	{Name: "expression: key chain", Pre: "$x", Unit: ".a", Level: -2},
	{Name: "expression: trailing tokens", Pre: "1", Unit: " 2", Level: -2},
	{Name: "expression: nested parentheses", Unit: "(", Mid: "1", Close: ")", Level: -2},
}

// parseTime is the shortest of reps timed parses of in.
func parseTime(kind, in string, reps int) time.Duration {
	best := time.Duration(1 << 62)
	c := C05Case{Kind: kind, Input: []byte(in)}
	for i := 0; i < reps; i++ {
		t0 := time.Now()
		doParse(c)
		if d := time.Since(t0); d < best {
			best = d
		}
	}
	return best
}

// checkStretch judges the "time proportional to the input" clause on one family of inputs: the
// input grown eightfold may take at most 20 times as long (8 is proportional; 64 is quadratic). Only
// runs that take longer than 0.2 s are judged, and a suspicion is measured again before it is
// reported, so a busy machine cannot raise the alarm.
func checkStretch(c C05Case) Verdict {
	s := c.Stretch
	kind := "file"
	if s.Level == -2 {
		kind = "expr"
		s2 := *s
		s2.Level = -1
		s = &s2
	}
	small, big := s.input(s.K), s.input(8*s.K)
	// (the long inputs are inputs too: each comes back with a tree or an error, and without a panic)
	for _, in := range []string{small, big} {
		var o parseOutcome
		if !finishes(6*watchdogLimit(), func() { o = doParse(C05Case{Kind: kind, Input: []byte(in)}) }) {
			hangExit("C05", c, fmt.Sprintf("the parse of the stretch %q (%d bytes)", s.Name, len(in)))
		}
		if o.panicked != nil {
			return bad(true, "the parse of the stretch %q (%q + %q x %d + %q%q x k + %q, %d bytes) panicked: %v", s.Name, s.Pre, s.Unit, len(in)/(len(s.Unit)+len(s.Close)+1), s.Mid, s.Close, s.Post, len(in), trunc(fmt.Sprint(o.panicked), 300))
		}
		if (o.err == nil) == o.treeNil {
			return bad(true, "the parse of the stretch %q (%d bytes) returned tree=nil:%v with error %v", s.Name, len(in), o.treeNil, o.err)
		}
	}
	var t1, t8 time.Duration
	slow := false
	if !finishes(6*watchdogLimit(), func() {
		for round := 0; round < 3; round++ {
			t1, t8 = parseTime(kind, small, 3), parseTime(kind, big, 2+round)
			slow = t8 > 200*time.Millisecond && t8 > 20*t1
			if !slow {
				return
			}
		}
	}) {
		hangExit("C05", c, fmt.Sprintf("parses of the stretch %q (%d and %d bytes)", s.Name, len(small), len(big)))
	}
	if slow {
		return bad(true, "parse time is not proportional to the input for the stretch %q (%q + %q x k + %q%q x k + %q): %d bytes take %v, %d bytes take %v (x%.0f for x8 input)",
			s.Name, s.Pre, s.Unit, s.Mid, s.Close, s.Post, len(small), t1, len(big), t8, float64(t8)/float64(t1))
	}
	return ok(true, "family:stretch")
}

func mkC05(kind, from, in string) C05Case {
	return C05Case{Kind: kind, Input: []byte(in), Show: fmt.Sprintf("%q", trunc(in, 300)), From: from}
}

// tagDict is the full tag / token dictionary, including unterminated openers.
var tagDict = []string{
	"{namespace a.b}", "{namespace a autoescape=\"false\"}", "{namespace", "{alias a.b.c}", "{alias ",
	"/** doc */", "/** @param x */", "/** @param? y\n * @param z */", "/**", "/** @param", "/* c */", "/*", "// line\n", " // c", "//",
	"{template .t}", "{template .t autoescape=\"true\" private=\"false\"}", "{template .t kind=\"html\"}", "{template", "{template .", "{/template}", "{/template",
	"{@param x: ?}", "{@param? y: list<string>}", "{@param z: int = 5}", "{@param x: ", "{@param", "{@param x", "{@param x: map<string,", "{@",
	"{$x}", "{$x.y[0]?.z}", "{print $x}", "{print", "{$x|noAutoescape}", "{$x|truncate:5,true}", "{$x|", "{$x|truncate:", "{$", "{$x", "{1 + }", "{'str'}", "{'unterminated", "{\"dq\"}",
	"{if $x}", "{if $x > 1 and not $y}", "{if", "{if }", "{elseif $y}", "{elseif", "{else}", "{/if}", "{/if",
	"{switch $x}", "{switch $x}\n  ", "{switch", "{case 1}", "{case 1, 'a', true}", "{case", "{case 1,", "{default}", "{/switch}",
	"{foreach $i in $l}", "{for $i in range(3)}", "{for $i in range(1, 10, 2)}", "{for $i", "{foreach $i in", "{for", "{ifempty}", "{/foreach}", "{/for}",
	"{let $v: 1 /}", "{let $v}", "{let $v kind=\"text\"}", "{let $v:", "{let", "{/let}",
	"{call .t /}", "{call .t}", "{call a.b.t data=\"all\" /}", "{call .t data=\"$x\"}", "{call name=\".t\"/}", "{call", "{call .t data=\"", "{call .t data=\"all", "{/call}",
	"{param a: 1 /}", "{param a}", "{param key=\"a\" value=\"$x\"/}", "{param key=\"a\"}", "{param", "{param a:", "{/param}",
	"{css foo}", "{css $x, bar}", "{css foo", "{css", "{css ", "{{css a}}", "{{css a}",
	"{msg desc=\"d\"}", "{msg desc=\"d\" meaning=\"m\"}", "{msg}", "{msg desc=\"", "{msg desc=\"d\"}{plural $n}", "{plural $n}", "{plural", "{case 0}", "{/plural}", "{/msg}",
	"{literal}", "{literal}x{/literal}", "{literal} {", "{/literal}", "{{literal}}a{/literal}", "{literal",
	"{log}", "{/log}", "{debugger}", "{sp}", "{nil}", "{\\n}", "{\\r}", "{\\t}", "{lb}", "{rb}", "{\\x}", "{\\",
	"{{$x}}", "{{$x}", "{{", "}}", "{", "}", "{}", "{/}", "{/foo}",
	// double-brace tags of every command, closed properly and with a single brace
	"{{literal}}", "{{literal}", "{{literal} a { b } c ", "{{/literal}}", "{{/literal}", "{{print $x}}", "{{print $x}", "{{if $x}}", "{{if $x}", "{{/if}}", "{{/if}",
	"{{call .t /}}", "{{call .t /}", "{{call .t}", "{{let $v: 1 /}}", "{{let $v: 1 /}", "{{msg desc=\"d\"}}", "{{msg desc=\"d\"}", "{{sp}}", "{{sp}", "{{foreach $i in $l}", "{{switch $x}", "{{case 1}", "{{param a: 1 /}", "{{css $x, b}", "{{@param x: ?}", "{{namespace a}", "{{template .t}", "{{/template}", "{{'a}b'}}", "{{'a}}b'}}", "{delcall a}", "{deltemplate a}", "{delpackage a}",
	"text", " ", "\n", "\r\n", "<b>", "http://x", "a//b", "\x00", "\xff\xfe", "é", " ", "{1?2:3}", "{[1,2}", "{['a':1]}", "{[:]}", "{f(}", "{f(1,}", "{0x}", "{1e}", "{1.}", "{-}", "{not}", "{$x ?:}", "{$x ? 1}", "{$x?[}", "{$x?.}", "{$x.}", "{.5}",
	// letters, digits and spaces outside ASCII (the scanner classifies runes with the unicode tables in places)
	"{-٣}", "{٣}", "{$x.٣}", "{$x?.३}", "{３ + 1}", "{$é}", "{é}", "{$x.é}", "{Ⅷ}", "{x²}", "{$a\u00a0+ 1}", "{$a\u2003}", "{\u00a0}", "{if $x > -٣}", "{$x|é}", "{call .é /}", "{let $é: 1 /}", "{@param é: ?}", "{namespace é}",
}

// attrDict: tags with quoted attributes x hostile attribute values (names, expressions and options
// that are handed to a second scanner or parsed by hand).
var attrDict = func() []string {
	tags := []string{`{call name="%s"/}`, `{call .t data="%s"/}`, `{call name="%s" data="all"}{/call}`, `{param key="%s" value="1"/}`, `{param key="a" value="%s"/}`, `{param key="%s"}x{/param}`,
		`{msg desc="%s"}m{/msg}`, `{msg desc="d" meaning="%s"}m{/msg}`, `{template .t autoescape="%s"}`, `{namespace a autoescape="%s"}`, `{template .t private="%s"}`, `{let $v kind="%s"}x{/let}`, `{css %s, b}`, `{css $x, %s}`}
	vals := []string{"", "foo bar", ".b-c.d", "$x .y", "$a $b", "1 +", `a\"b`, "all", "$x", "'s' 't' 'u'", "(1", "1 2 3 4", "\n", "é", "$x |", "}", "{", "a.b.c", ".t", "true", "x y z", "#", "@ @", "1 # 2 3", "f(1, 2) 3 4", "$x 'unterminated", "[1, 2 3"}
	var out []string
	for _, t := range tags {
		for _, v := range vals {
			out = append(out, strings.Replace(t, "%s", v, 1))
		}
	}
	return out
}()

// tagDictAll is what the random families draw from.
var tagDictAll = append(append([]string{}, tagDict...), attrDict...)

// exprDict is the expression token dictionary for parse.Expr.
var exprDict = []string{"-٣", "-１", "-१२", "٣", "１", "-²", "-½", "-Ⅷ", "1٣", "$x.٣", "-\u0660.5", "0x１", "1e٣", "if", "default", "print", "call", "log", "sp", "nil", "let", "foreach", "for", "case", "css", "literal", "msg", "switch", "param", "template", "namespace", "alias", "ifempty", "else", "elseif", "in", "plural", "debugger", "lb", "/if", "'\\uD83D\\uDE00'", "'\\uD83D\\uDE'", "'\\uD83D\\u'", "'\\uD83D\\'", "'\\uDE00\\uD83D'", "'\\u12'", "'\\u'", "'\\uZZZZ'", "'\\uD83Dx'", "'a\\", "'\\n\\t\\r\\b\\f\\\\\\'\\\"'", "1", "-1", "0x1F", "1.5", "2e3", "1e", "'s'", "'\\u00e9'", "'\\x'", "'", "\"", "null", "true", "$x", "$x.y", "$x?.y", "$x[0]", "$x?[", "$ij.a", "$", "a.b", "f(", "f(1)", ")", "(", "[", "]", "[:]", ":", ",", "?", "?:", "+", "-", "*", "/", "%", "<", "<=", "==", "!=", "!", "=", "and", "or", "not", "|", "}", "{", " ", "\n", "é", "\x00", "\xff", ".", ".5", "1.", "1 2 3", "@", "@param", "//", "/*", "٣", "-٣", "３", ".٣", "é", "$é", "Ⅷ", "²", "\u00a0", "\u2003", "-", "- ", "--"}

var (
	corpusOnce []string
	tokenSplit = regexp.MustCompile(`\{[^{}]*\}|/\*\*?|\*/|[^{}]+|[{}]`)
)

// validCorpus returns the repository's own templates (read at run time from /repo).
func validCorpus() []string {
	if corpusOnce != nil {
		return corpusOnce
	}
	for _, f := range []string{"testdata/simple.soy", "testdata/features.soy"} {
		if b, err := os.ReadFile(filepath.Join("/repo", f)); err == nil {
			corpusOnce = append(corpusOnce, string(b))
		}
	}
	if len(corpusOnce) == 0 {
		corpusOnce = []string{"{namespace a}\n/** */\n{template .t}x{/template}\n"}
	}
	return corpusOnce
}

func wrapLevel(level int, body string, closeIt bool) string {
	switch level {
	case 0:
		return "{namespace ns}\n" + body
	case 1:
		s := "{namespace ns}\n/** @param x */\n{template .t}\n" + body
		if closeIt {
			s += "\n{/template}\n"
		}
		return s
	}
	s := "{namespace ns}\n/** @param x */\n{template .t}\n{if $x}{foreach $i in $x}" + body
	if closeIt {
		s += "{/foreach}{/if}\n{/template}\n"
	}
	return s
}

// stretchPercent of the generated cases are random stretches (dictionary fragments as prefix, unit and suffix).
var stretchPercent = func() int {
	if n, err := strconv.Atoi(os.Getenv("VERIF_C05_STRETCH_PCT")); err == nil {
		return n
	}
	return 3
}()

func genC05(t *rapid.T) C05Case {
	if rapid.IntRange(0, 99).Draw(t, "stretch") >= 100-stretchPercent {
		st := C05Stretch{Name: "random", Level: rapid.IntRange(-1, 2).Draw(t, "level")}
		frag := func(label string) string {
			if rapid.Bool().Draw(t, label+"-expr") {
				return "{" + rapid.SampledFrom(exprDict).Draw(t, label) + rapid.SampledFrom(exprDict).Draw(t, label+"2")
			}
			return rapid.SampledFrom(tagDictAll).Draw(t, label)
		}
		if rapid.Bool().Draw(t, "pre") {
			st.Pre = frag("prefix")
		}
		st.Unit = frag("unit")
		if rapid.IntRange(0, 3).Draw(t, "unit2") == 0 {
			st.Unit = rapid.SampledFrom(exprDict).Draw(t, "tok") + " "
		}
		if rapid.Bool().Draw(t, "post") {
			st.Post = rapid.SampledFrom(tagDictAll).Draw(t, "suffix")
		}
		if rapid.IntRange(0, 4).Draw(t, "nested") == 0 {
			st.Close = rapid.SampledFrom([]string{")", "]", "}", "{/if}", "{/foreach}", "{/let}", "{/param}", "{/call}", "{/msg}", "{/switch}", "{/literal}", "*/", "'"}).Draw(t, "close")
			st.Mid = rapid.SampledFrom([]string{"", "1", "x", "{$x}"}).Draw(t, "mid")
		}
		st.K = stretchK(&st)
		return C05Case{Kind: "stretch", From: "stretch", Show: fmt.Sprintf("%q + %q x k + %q%q x k + %q", st.Pre, st.Unit, st.Mid, st.Close, st.Post), Stretch: &st}
	}
	switch rapid.IntRange(0, 9).Draw(t, "family") {
	case 0: // prefix of a repository template
		c := rapid.SampledFrom(validCorpus()).Draw(t, "file")
		return mkC05("file", "prefix-of-repo-template", c[:rapid.IntRange(0, len(c)).Draw(t, "cut")])
	case 1: // prefix of a generated valid program
		g := &gen.G{T: t, P: gen.Profile{Unicode: true, HTMLChars: true, Directives: true}}
		pc := gen.GenProgram(g, gen.ProgOpts{MaxTemplates: 3, MaxDepth: 3, MaxCmds: 4, ExprDepth: 2, PosWeight: 5, CallWeight: 5})
		_, srcs := gen.Sources(&pc.Prog)
		s := srcs[rapid.IntRange(0, len(srcs)-1).Draw(t, "which")]
		return mkC05("file", "prefix-of-generated-program", s[:rapid.IntRange(0, len(s)).Draw(t, "cut")])
	case 2, 3: // tag dictionary sequences at a level
		n := rapid.IntRange(1, scale(4, 6)).Draw(t, "n")
		var b strings.Builder
		for i := 0; i < n; i++ {
			b.WriteString(rapid.SampledFrom(tagDictAll).Draw(t, "frag"))
		}
		return mkC05("file", "tag-dictionary", wrapLevel(rapid.IntRange(0, 2).Draw(t, "level"), b.String(), rapid.Bool().Draw(t, "close")))
	case 4, 5: // token mutation of a valid file
		c := rapid.SampledFrom(validCorpus()).Draw(t, "file")
		if len(c) > 3000 {
			start := rapid.IntRange(0, len(c)-3000).Draw(t, "window")
			c = "{namespace w}\n" + c[start:start+3000]
		}
		toks := tokenSplit.FindAllString(c, -1)
		for i, n := 0, rapid.IntRange(1, 3).Draw(t, "muts"); i < n && len(toks) > 2; i++ {
			a := rapid.IntRange(0, len(toks)-1).Draw(t, "a")
			switch rapid.IntRange(0, 3).Draw(t, "mut") {
			case 0:
				toks = append(toks[:a:a], toks[a+1:]...)
			case 1:
				toks = append(toks[:a+1:a+1], toks[a:]...)
			case 2:
				b := rapid.IntRange(0, len(toks)-1).Draw(t, "b")
				toks[a], toks[b] = toks[b], toks[a]
			case 3:
				toks[a] = rapid.SampledFrom(tagDictAll).Draw(t, "frag")
			}
		}
		return mkC05("file", "token-mutation", strings.Join(toks, ""))
	case 6: // random bytes
		b := rapid.SliceOfN(rapid.Byte(), 0, 200).Draw(t, "bytes")
		if rapid.Bool().Draw(t, "wrapped") {
			return mkC05("file", "random-bytes", wrapLevel(1, string(b), false))
		}
		return mkC05("file", "random-bytes", string(b))
	case 7, 8: // expression token sequences
		n := rapid.IntRange(1, scale(6, 10)).Draw(t, "n")
		var b strings.Builder
		for i := 0; i < n; i++ {
			b.WriteString(rapid.SampledFrom(exprDict).Draw(t, "tok"))
			if rapid.Bool().Draw(t, "space") {
				b.WriteByte(' ')
			}
		}
		return mkC05("expr", "expr-dictionary", b.String())
	}
	if rapid.IntRange(0, 2).Draw(t, "structured") > 0 {
		// well-bracketed command structures (messages with plurals inside plurals, switches, loops, calls)
		// in which any optional clause and any closing tag may be left out: each input is complete - a
		// fault of this kind shows only after the whole structure was read
		return mkC05("file", "structure-with-omissions", wrapLevel(1, genStructure(t, rapid.IntRange(1, 4).Draw(t, "depth"), false), rapid.IntRange(0, 9).Draw(t, "close") > 0))
	}
	if rapid.Bool().Draw(t, "manyNames") {
		// a file whose identifiers no earlier input of this process had: whatever the parser keeps between
		// parses (tables of names seen so far) grows with every such file
		base := rapid.IntRange(0, 999999999).Draw(t, "base")
		n := rapid.IntRange(50, 400).Draw(t, "names")
		var b strings.Builder
		fmt.Fprintf(&b, "{namespace ns%d.sub%d}\n{alias other%d.lib%d}\n", base, base, base, base)
		for j := 0; j < n; j++ {
			fmt.Fprintf(&b, "/** @param p%d_%d */\n{template .t%d_%d}{let $v%d_%d: $p%d_%d + G%d_%d /}{$v%d_%d}{call .t%d_%d /}{call lib%d.u%d_%d}{param q%d_%d: f%d_%d(1) /}{/call}{css c%d_%d}{/template}\n",
				base, j, base, j, base, j, base, j, base, j, base, j, base, j+1, base, base, j, base, j, base, j, base, j)
		}
		return mkC05("file", "many-new-names", b.String())
	}
	return mkC05("expr", "random-bytes", string(rapid.SliceOfN(rapid.Byte(), 0, 60).Draw(t, "bytes")))
}

func genStructure(t *rapid.T, depth int, inMsg bool) string {
	keep := func(s string, percent int) string {
		if rapid.IntRange(0, 99).Draw(t, "keep") < percent {
			return s
		}
		return ""
	}
	leaf := func() string {
		return rapid.SampledFrom([]string{"text", "{$x}", "{$x.y|id}", "", " ", "<b>t</b>", "{sp}"}).Draw(t, "leaf")
	}
	body := func() string {
		if depth <= 1 {
			return leaf()
		}
		var b strings.Builder
		for i, n := 0, rapid.IntRange(0, 2).Draw(t, "parts"); i < n; i++ {
			if rapid.Bool().Draw(t, "nest") {
				b.WriteString(genStructure(t, depth-1, inMsg))
			} else {
				b.WriteString(leaf())
			}
		}
		return b.String()
	}
	kinds := []string{"msg", "plural", "switch", "if", "foreach", "call", "let"}
	if inMsg {
		kinds = []string{"plural", "plural", "call", "leaf"}
	}
	switch rapid.SampledFrom(kinds).Draw(t, "struct") {
	case "msg":
		inMsg = true
		return "{msg desc=\"d\"" + keep(" meaning=\"m\"", 20) + "}" + genStructure(t, depth, true) + keep("{/msg}", 92)
	case "plural":
		var b strings.Builder
		b.WriteString("{plural $n}")
		for i, n := 0, rapid.IntRange(0, 2).Draw(t, "cases"); i < n; i++ {
			b.WriteString("{case " + rapid.SampledFrom([]string{"0", "1", "2", "'a'"}).Draw(t, "caseval") + "}" + body())
		}
		b.WriteString(keep("{default}"+body(), 60))
		b.WriteString(keep("{/plural}", 92))
		return b.String()
	case "switch":
		var b strings.Builder
		b.WriteString("{switch $x}")
		for i, n := 0, rapid.IntRange(0, 2).Draw(t, "cases"); i < n; i++ {
			b.WriteString("{case " + rapid.SampledFrom([]string{"0", "1, 2", "'a'"}).Draw(t, "caseval") + "}" + body())
		}
		b.WriteString(keep("{default}"+body(), 50) + keep("{/switch}", 92))
		return b.String()
	case "if":
		return "{if $x}" + body() + keep("{elseif $y}"+body(), 40) + keep("{else}"+body(), 40) + keep("{/if}", 92)
	case "foreach":
		return "{foreach $i in $x}" + body() + keep("{ifempty}"+body(), 40) + keep("{/foreach}", 92)
	case "call":
		return "{call .t}" + keep("{param p}"+body()+keep("{/param}", 90), 60) + keep("{param q: 1 /}", 40) + keep("{/call}", 92)
	case "let":
		return "{let $v}" + body() + keep("{/let}", 92) + "{$v}"
	}
	return leaf()
}

type parseOutcome struct {
	tree     ast.Node
	treeNil  bool
	err      error
	panicked interface{}
	steps    int64
}

func doParse(c C05Case) parseOutcome {
	var o parseOutcome
	before := parseSteps()
	o.panicked = catch(func() {
		if c.Kind == "expr" {
			o.tree, o.err = parse.Expr(string(c.Input))
			o.treeNil = o.tree == nil
		} else {
			f, err := parse.SoyFile("input.soy", string(c.Input))
			o.err = err
			o.treeNil = f == nil
			if f != nil {
				o.tree = f
			}
		}
	})
	o.steps = parseSteps() - before
	return o
}

// the step bound: scanner and parser steps are linear in the input length.
// Calibrated on the repository's templates and on generated programs (at most
// ~3 steps per byte observed), then fixed with a wide margin.
const (
	stepsPerByte = 12
	stepsBase    = 400
)

func checkC05(c C05Case) Verdict {
	if c.Stretch != nil && c.Kind == "deep" {
		return checkDeep(c)
	}
	if c.Stretch != nil {
		return checkStretch(c)
	}
	var o parseOutcome
	if !finishes(watchdogLimit(), func() { o = doParse(c) }) {
		hangExit("C05", c, fmt.Sprintf("parse.%s of %s", c.Kind, c.Show))
	}
	nt := c.From != "" && (o.err != nil) && strings.Contains(string(c.Input), "{")
	if c.Kind == "expr" {
		nt = o.err != nil
	}
	if o.panicked != nil {
		return bad(true, "parser panicked on %s input %s: %v", c.Kind, c.Show, o.panicked)
	}
	if o.err == nil && o.treeNil {
		return bad(true, "parser returned neither a tree nor an error for %s", c.Show)
	}
	if o.err != nil && !o.treeNil {
		return bad(true, "parser returned both a tree and an error (%v) for %s", o.err, c.Show)
	}
	if o.err != nil && strings.TrimSpace(o.err.Error()) == "" {
		return bad(true, "parser returned an error with empty text for %s", c.Show)
	}
	if n := int64(len(c.Input)); n >= 40 && o.steps*100/n > c05MaxStepsPer100 {
		c05MaxStepsPer100 = o.steps * 100 / n
	}
	if hooksEnabled && o.steps > int64(stepsPerByte*len(c.Input)+stepsBase) {
		return bad(true, "parser took %d steps for %d bytes (bound %d): not proportional to the input: %s", o.steps, len(c.Input), stepsPerByte*len(c.Input)+stepsBase, c.Show)
	}
	// parsing is a function of the input: a second parse of the same bytes (after whatever the first
	// one left behind in the process) returns the same tree or the same error
	var o2 parseOutcome
	if !finishes(watchdogLimit(), func() { o2 = doParse(c) }) {
		hangExit("C05", c, fmt.Sprintf("second parse.%s of %s", c.Kind, c.Show))
	}
	if o2.panicked != nil {
		return bad(true, "parser panicked on the second parse of %s input %s: %v", c.Kind, c.Show, o2.panicked)
	}
	if (o.err == nil) != (o2.err == nil) || o.err != nil && o.err.Error() != o2.err.Error() {
		return bad(true, "two parses of the same %s input %s disagree: first %v, then %v", c.Kind, c.Show, o.err, o2.err)
	}
	if o.err == nil && !o.treeNil && !o2.treeNil {
		s1, s2 := "", ""
		if catch(func() { s1, s2 = o.tree.String(), o2.tree.String() }) == nil && s1 != s2 {
			return bad(true, "two parses of the same %s input %s give different trees:\n %s\n %s", c.Kind, c.Show, trunc(s1, 300), trunc(s2, 300))
		}
	}
	outcome := "accepted"
	if o.err != nil {
		outcome = "rejected"
	}
	return ok(nt, "family:"+c.From, c.Kind+":"+outcome)
}

var c05MaxStepsPer100 int64

// exhaustive sub-tiers (shard 0): every prefix of the corpus, every pair of
// dictionary fragments at the three levels, closed and unclosed.
func c05Exhaustive(rec *recorder, t *testing.T) bool {
	run := func(c C05Case) bool {
		writeCurrent("C05", c)
		histLog(c)
		v := checkC05(c)
		rec.record(c, v)
		if v.Err != nil {
			writeFail("C05", c, v.Err)
			t.Errorf("exhaustive tier: %v", v.Err)
			return false
		}
		return true
	}
	n := 0
	for ci, file := range validCorpus() {
		step := 1
		if !thorough() && len(file) > 4000 {
			step = 7
		}
		for cut := 0; cut <= len(file); cut += step {
			n++
			if !run(mkC05("file", "prefix-of-repo-template", file[:cut])) {
				return false
			}
		}
		_ = ci
	}
	rec.add("exhaustive_prefixes", n)
	n = 0
	for level := 0; level < 3; level++ {
		for _, a := range tagDict {
			for _, b := range tagDict {
				n++
				if !run(mkC05("file", "tag-dictionary", wrapLevel(level, a+b, n%2 == 0))) {
					return false
				}
			}
			n++
			if !run(mkC05("file", "tag-dictionary", wrapLevel(level, a, false))) {
				return false
			}
		}
	}
	for level := 0; level < 3; level++ {
		for _, a := range attrDict {
			n++
			if !run(mkC05("file", "tag-dictionary", wrapLevel(level, a, n%2 == 0))) {
				return false
			}
		}
	}
	for _, a := range exprDict {
		for _, b := range exprDict {
			n += 2
			if !run(mkC05("expr", "expr-dictionary", a+b)) || !run(mkC05("expr", "expr-dictionary", a+" "+b)) {
				return false
			}
			if thorough() {
				for _, c := range exprDict {
					n++
					if !run(mkC05("expr", "expr-dictionary", a+" "+b+" "+c)) {
						return false
					}
				}
			}
		}
	}
	rec.add("exhaustive_dictionary_inputs", n)
	return true
}

func TestC05(t *testing.T) {
	if shard() == "0" && os.Getenv("VERIF_REPLAY") == "" && os.Getenv("VERIF_CORPUS_ONLY") == "" {
		rec := newRecorder("C05x")
		okAll := c05Exhaustive(rec, t)
		rec.add("max_steps_per_100_input_bytes_observed", int(c05MaxStepsPer100))
		rec.add("step_bound_per_100_input_bytes", stepsPerByte*100)
		rec.flush()
		if !okAll {
			return
		}
	}
	if (shard() == "1" || os.Getenv("VERIF_NSHARDS") == "1") && os.Getenv("VERIF_REPLAY") == "" && os.Getenv("VERIF_CORPUS_ONLY") == "" {
		rec := newRecorder("C05s")
		for i := range c05Stretches {
			st := c05Stretches[i]
			st.K = stretchK(&st)
			c := C05Case{Kind: "stretch", From: "stretch", Show: st.Name, Stretch: &st}
			writeCurrent("C05", c)
			histLog(c)
			v := checkC05(c)
			rec.record(c, v)
			if v.Err != nil {
				writeFail("C05", c, v.Err)
				rec.flush()
				t.Fatalf("stretch tier: %v", v.Err)
			}
		}
		rec.add("stretch_families", len(c05Stretches))
		rec.flush()
		// the length sweep: short units repeated to every length up to a bound, and to the lengths around
		// powers of two - as a standalone expression, as a print command and as a quoted attribute value.
		// (Whatever the scanner and the parser hand each other in pieces of some size, an input of exactly
		// that size exists here.)
		rec = newRecorder("C05w")
		var lengths []int
		for l := 1; l <= scale(140, 300); l++ {
			lengths = append(lengths, l)
		}
		for _, p2 := range []int{256, 512, 1024, 4096, 65536} {
			for l := p2 - 3; l <= p2+3; l++ {
				lengths = append(lengths, l)
			}
		}
		swept := 0
		for _, unit := range []string{"(", "[", ")", "]", "-", "$", ",", ":", "?", "|", "'", "\"", ".", "1", "a", " ", "{", "}", "1,", "1+", "a.", "[]", "()", "''", "$a", "not ", "-1", "1 ", "é", "\xff"} {
			for _, l := range lengths {
				in := strings.Repeat(unit, l/len(unit)+1)[:l]
				for _, c := range []C05Case{
					{Kind: "expr", Input: []byte(in)},
					{Kind: "file", Input: []byte("{namespace a}\n/** */\n{template .t}{" + in + "}{/template}\n")},
					{Kind: "file", Input: []byte("{namespace a}\n/** */\n{template .t}{call .t data=\"" + in + "\" /}{/template}\n")},
				} {
					c.From, c.Show = "sweep", fmt.Sprintf("%d bytes of %q", l, unit)
					if swept%64 == 0 || l > 200 {
						writeCurrent("C05", c) // (a hang ends the process: the case is on disk then)
					}
					swept++
					if v := checkC05(c); v.Err != nil {
						writeFail("C05", c, v.Err)
						rec.flush()
						t.Fatalf("length sweep: %v", v.Err)
					}
				}
			}
		}
		rec.add("length_sweep_inputs", swept)
		rec.flush()
	}
	if (thorough() && shard() == "2" || !thorough() && shard() == "3" || os.Getenv("VERIF_NSHARDS") == "1") && os.Getenv("VERIF_REPLAY") == "" && os.Getenv("VERIF_CORPUS_ONLY") == "" {
		// the deep tier: every nesting construct some millions of levels deep (inputs of 5-20 MB). The
		// parse has to come back with a tree or an error; a recursion that outgrows the stack kills the
		// process, which the driver sees (the case is written out before it is run).
		rec := newRecorder("C05d")
		for i := range c05Deep {
			st := c05Deep[i]
			st.K = 5000000
			if len(st.Unit) > 2 {
				st.K = 1500000
			}
			if strings.Contains(st.Name, "quoted attribute") {
				st.K = 9000000
			} else if !thorough() {
				continue // (the quick tier runs the constructs of the quoted attribute parser only)
			}
			c := C05Case{Kind: "deep", From: "deep", Show: st.Name, Stretch: &st}
			writeCurrent("C05", c)
			histLog(c)
			v := checkC05(c)
			rec.record(c, v)
			if v.Err != nil {
				writeFail("C05", c, v.Err)
				rec.flush()
				t.Fatalf("deep tier: %v", v.Err)
			}
		}
		rec.add("deep_families", len(c05Deep))
		rec.flush()
	}
	runPropCrashy(t, "C05", genC05, checkC05)
}

// c05Deep: the constructs that nest (Level -2: a standalone expression; 1: inside a template).
var c05Deep = []C05Stretch{
	{Name: "deep: parentheses", Unit: "(", Mid: "1", Close: ")", Level: -2},
	{Name: "deep: parentheses left open", Unit: "(", Mid: "1", Level: -2},
	{Name: "deep: list literals", Unit: "[", Mid: "1", Close: "]", Level: -2},
	{Name: "deep: map literals", Unit: "['k':", Mid: "1", Close: "]", Level: -2},
	{Name: "deep: unary minus", Unit: "- ", Mid: "1", Level: -2},
	{Name: "deep: not", Unit: "not ", Mid: "true", Level: -2},
	{Name: "deep: conditional chain", Unit: "1?1:", Mid: "1", Level: -2},
	{Name: "deep: elvis chain", Unit: "1?:", Mid: "1", Level: -2},
	{Name: "deep: function calls", Unit: "f(", Mid: "1", Close: ")", Level: -2},
	{Name: "deep: bracket accesses", Unit: "$a[", Mid: "1", Close: "]", Level: -2},
	{Name: "deep: print of parentheses in a file", Pre: "{", Unit: "(", Mid: "1", Close: ")", Post: "}", Level: 1},
	{Name: "deep: if blocks", Unit: "{if $x}", Mid: "y", Close: "{/if}", Level: 1},
	{Name: "deep: if blocks left open", Unit: "{if $x}", Mid: "y", Level: 1},
	{Name: "deep: let blocks", Unit: "{let $v}", Mid: "y", Close: "{/let}", Level: 1},
	{Name: "deep: loops", Unit: "{foreach $i in $x}", Mid: "y", Close: "{/foreach}", Level: 1},
	{Name: "deep: param blocks", Unit: "{call .t}{param p}", Mid: "y", Close: "{/param}{/call}", Level: 1},
	// (the expression of a quoted attribute is parsed apart, by a parser of its own)
	{Name: "deep: parentheses in a quoted attribute", Pre: "{call .t data=\"", Unit: "(", Mid: "$x", Close: ")", Post: "\" /}", Level: 1},
	{Name: "deep: list literals in a quoted attribute left open", Pre: "{call .t}{param key=\"k\" value=\"", Unit: "[", Mid: "1", Post: "\" /}{/call}", Level: 1},
	{Name: "deep: unary minus in the base of a css command (quoted attribute parser)", Pre: "{css ", Unit: "- ", Mid: "$x", Post: ", name}", Level: 1},
}

// checkDeep parses one deeply nested input: it must come back.
func checkDeep(c C05Case) Verdict {
	s := c.Stretch
	kind := "file"
	if s.Level == -2 {
		kind = "expr"
		s2 := *s
		s2.Level = -1
		s = &s2
	}
	in := s.input(s.K)
	var o parseOutcome
	if !finishes(12*watchdogLimit(), func() { o = doParse(C05Case{Kind: kind, Input: []byte(in)}) }) {
		hangExit("C05", c, fmt.Sprintf("the parse of %q (%d levels, %d bytes)", s.Name, s.K, len(in)))
	}
	if o.panicked != nil {
		return bad(true, "the parse of %q (%d levels, %d bytes) panicked: %v", s.Name, s.K, len(in), trunc(fmt.Sprint(o.panicked), 300))
	}
	if (o.err == nil) == o.treeNil {
		return bad(true, "the parse of %q (%d levels) returned tree=nil:%v with error %v", s.Name, s.K, o.treeNil, o.err)
	}
	return ok(true, "family:deep")
}

// stretchK sizes a stretch so that the smaller input has about 24 kB (nested forms: at most 1500 levels).
func stretchK(s *C05Stretch) int {
	k := 24000 / (len(s.Unit) + len(s.Close))
	if s.Close != "" && k > scale(1500, 3000) {
		k = scale(1500, 3000)
	}
	if k < 10 {
		k = 10
	}
	return k
}
