package props

import (
	"bytes"
	"fmt"
	"os"
	"strings"
	"testing"

	"github.com/robfig/soy/soyjs"
	"pgregory.net/rapid"

	"verif/harness/gen"
	"verif/harness/ref"
)

// C14: the generated JavaScript is always well-formed, defines one function per
// template under its qualified name, and every string that originates in the
// template denotes in JavaScript exactly the original characters.
//
// A case is a list of literal strings, each with a placement; the bundle built
// from it is closed (needs no data) and prints every literal unescaped, so the
// expected output is known to the generator independently of both backends.

type C14Lit struct {
	S     string `json:"s"`
	Place string `json:"place"` // text literal string string-esc mapkey css msgtext global param-content switch-case
}

type C14Case struct {
	Lits      []C14Lit `json:"lits"`
	Namespace string   `json:"namespace"`
	TwoFiles  bool     `json:"two_files,omitempty"`
	// CalleeLast: in the one-file layout the called template comes after its caller
	CalleeLast bool `json:"callee_last,omitempty"`
	// Prog, when set, replaces the literal carriers by a whole generated bundle: only the structural
	// half of the property is judged on it (every file well-formed under both formatters, one function
	// per template under its qualified name)
	Prog *gen.ProgCase `json:"prog,omitempty"`
}

var c14Places = []string{"string-raw", "subscript", "subscript-raw", "text", "literal", "string", "string-esc", "mapkey", "css", "css-base", "msgtext", "global", "global-list", "global-map", "param-content", "switch-case", "mapvalue", "listitem"}

var c14Pieces = []string{"'", "\"", "\\", "\n", "\r", "\t", "\u2028", "\u2029", "</script>", "<!--", "]]>", "𝄞", "\U0010FFFF", "\U000E0001", "é", "日本", "a", "b", " ", "0", "=", "&", "<", ">", "/", "`", "${x}", "\x00", "\x01", "\x1f", "\x7f", "\u0085", " ", "\ufeff", "\\n", "\\u0041", "'+alert(1)+'", "*/", "/*", "//", "{", "}", ";", ":", ",", "-->", "\v", "\f", "\b", "%", "$", "#",
	"1a", "010", "1e1", "0x10", "00", "1", "-1", "1.5", "class", "default", "function", "constructor", "toString", "hasOwnProperty", "__proto__", "prototype", "length", "a-b", "a.b", "\u00e9", "é",
	// a literal backslash followed by text that looks like an escape sequence of the generated code
	`\u000A`, `\u000D`, `\u0009`, `\u003C`, `\u0022`, `\u0027`, `\u2028`, `\x3C`, `\r`, `\t`, `\'`, `\"`, `\\`, `\0`, `\u10FFFF`, `\uD834\uDD1E`}

func genC14(t *rapid.T) C14Case {
	if rapid.IntRange(0, 9).Draw(t, "whole-bundle") < 3 {
		g := &gen.G{T: t, P: gen.Profile{Common: true, Unicode: true, HTMLChars: true, Directives: true}}
		pc := gen.GenProgram(g, gen.ProgOpts{MaxTemplates: 6, MaxDepth: 3, MaxCmds: 4, ExprDepth: 2, PosWeight: 4, ScopeWeight: 6, CallWeight: 14, MinTemplates: 2, MsgWeight: 4, MsgStress: 30})
		return C14Case{Prog: &pc}
	}
	c := C14Case{CalleeLast: rapid.Bool().Draw(t, "calleeLast"), Namespace: rapid.SampledFrom([]string{"a", "a.b", "a.b.c", "ns1.sub_2.x.y", "soyapp.views"}).Draw(t, "ns"), TwoFiles: rapid.Bool().Draw(t, "twoFiles")}
	for i, n := 0, rapid.IntRange(1, 6).Draw(t, "nlits"); i < n; i++ {
		var b strings.Builder
		switch rapid.IntRange(0, 9).Draw(t, "shape") {
		case 0:
			b.WriteString(string([]byte{byte(rapid.IntRange(0, 127).Draw(t, "ascii"))}))
		case 1:
			b.WriteString(strings.Repeat(rapid.SampledFrom(c14Pieces).Draw(t, "piece"), rapid.IntRange(100, 3000).Draw(t, "rep")))
		case 2:
			b.WriteString(rapid.String().Draw(t, "anystring"))
		default:
			for j, m := 0, rapid.IntRange(0, 6).Draw(t, "npieces"); j < m; j++ {
				b.WriteString(rapid.SampledFrom(c14Pieces).Draw(t, "piece"))
			}
		}
		c.Lits = append(c.Lits, C14Lit{S: b.String(), Place: rapid.SampledFrom(c14Places).Draw(t, "place")})
	}
	return c
}

// admit adapts a literal to what its placement can carry in Soy source (the
// property is about strings that originate in a template) and returns the text it must produce.
func admit(l C14Lit) (src string, want string, okPlace bool) {
	s := l.S
	switch l.Place {
	case "text", "msgtext":
		// raw template text: no braces, no comment openers; it is normalised by the line-joining rule
		s = strings.NewReplacer("{", "(", "}", ")").Replace(s)
		var sb strings.Builder
		for i := 0; i < len(s); i++ {
			sb.WriteByte(s[i])
			if s[i] == '/' && (i+1 == len(s) || s[i+1] == '/' || s[i+1] == '*') {
				sb.WriteByte('.') // never a comment opener
			}
		}
		s = sb.String()
		if l.Place == "msgtext" {
			// (inside msg, text that looks like an HTML tag becomes a placeholder; its characters are kept)
		}
		return s, ref.NormalizeText(s), true
	case "literal":
		s = strings.ReplaceAll(s, "{/literal}", "{/ literal}")
		return s, s, true
	case "css", "css-base":
		s = strings.TrimSpace(strings.NewReplacer("}", ")", ",", ";", "{", "(").Replace(s))
		if s == "" {
			s = "c"
		}
		return s, s, true
	}
	return s, s, true
}

// attrSafe makes a text fit for an attribute value: a backslash directly in front of a double quote (or
// of the closing quote) would escape it.
func attrSafe(s string) string {
	for strings.Contains(s, "\\\"") {
		s = strings.ReplaceAll(s, "\\\"", "\\ \"")
	}
	return strings.TrimRight(s, "\\")
}

func buildC14(c C14Case) (gen.ProgCase, string) {
	var body []ref.Cmd
	var want strings.Builder
	globals := map[string]ref.Value{}
	noesc := []ref.Directive{{Name: "noAutoescape"}}
	str := func(s string, esc int) *ref.Expr { return &ref.Expr{Op: "str", S: s, Esc: esc} }
	for i, l := range c.Lits {
		src, w, _ := admit(l)
		v := fmt.Sprintf("v%d", i)
		switch l.Place {
		case "text":
			body = append(body, ref.Cmd{K: "text", Text: src})
		case "msgtext":
			// (the description and the meaning carry the literal too: they must never reach the script unescaped)
			body = append(body, ref.Cmd{K: "msg", Desc: attrSafe(l.S), Meaning: attrSafe(strings.ToValidUTF8(l.S, "?")), Body: []ref.Cmd{{K: "text", Text: src}}})
			if strings.TrimSpace(ref.NormalizeText(src)) == "" && ref.NormalizeText(src) != "" {
				// whitespace-only message text is still text
			}
		case "literal":
			body = append(body, ref.Cmd{K: "literal", Text: src})
		case "string":
			body = append(body, ref.Cmd{K: "print", Expr: str(src, 0), Directives: noesc})
		case "string-esc":
			body = append(body, ref.Cmd{K: "print", Expr: str(src, 1), Directives: noesc})
		case "string-raw":
			body = append(body, ref.Cmd{K: "print", Expr: str(src, 3), Directives: noesc})
		case "subscript", "subscript-raw":
			// the literal as the key of an entry and as the subscript that looks it up
			esc := 0
			if l.Place == "subscript-raw" {
				esc = 3
			}
			keys, vals := []string{src, src + "x"}, []*ref.Expr{str("hit", 0), str("miss", 0)}
			if len(src)%2 == 0 {
				keys, vals = []string{src + "x", src, "zz" + src}, []*ref.Expr{str("miss", 0), str("hit", 0), str("miss2", 0)} // (the literal is not the first key)
			}
			body = append(body, ref.Cmd{K: "let", Var: v, Expr: &ref.Expr{Op: "map", Keys: keys, Args: vals}},
				ref.Cmd{K: "print", Expr: &ref.Expr{Op: "ref", Name: v, Access: []ref.Access{{Kind: "expr", Expr: str(src, esc)}}}})
			w = "hit"
		case "mapkey":
			body = append(body, ref.Cmd{K: "let", Var: v, Expr: &ref.Expr{Op: "map", Keys: []string{src}, Args: []*ref.Expr{{Op: "int", I: 1}}}},
				ref.Cmd{K: "for", Style: 1, Var: "k" + v, Expr: &ref.Expr{Op: "call", Name: "keys", Args: []*ref.Expr{varE(v)}}, Body: []ref.Cmd{{K: "print", Expr: varE("k" + v), Directives: noesc}}})
		case "mapvalue":
			body = append(body, ref.Cmd{K: "let", Var: v, Expr: &ref.Expr{Op: "map", Keys: []string{"key"}, Args: []*ref.Expr{str(src, 0)}}},
				ref.Cmd{K: "print", Expr: &ref.Expr{Op: "ref", Name: v, Access: []ref.Access{{Kind: "key", Key: "key"}}}, Directives: noesc})
		case "listitem":
			body = append(body, ref.Cmd{K: "let", Var: v, Expr: &ref.Expr{Op: "list", Args: []*ref.Expr{str("x", 0), str(src, 0)}}},
				ref.Cmd{K: "print", Expr: &ref.Expr{Op: "ref", Name: v, Access: []ref.Access{{Kind: "index", Index: 1}}}, Directives: noesc})
		case "css":
			body = append(body, ref.Cmd{K: "css", Text: src})
		case "css-base":
			// the class name behind a base expression
			body = append(body, ref.Cmd{K: "css", Expr: str("b", 0), Text: src})
			w = "b-" + w
		case "global":
			name := fmt.Sprintf("app.G%d", i)
			globals[name] = ref.S(src)
			body = append(body, ref.Cmd{K: "print", Expr: &ref.Expr{Op: "global", Name: name}, Directives: noesc})
		case "global-list":
			// a global whose value is a list (the same name has another value in the next bundle)
			name := fmt.Sprintf("app.L%d", i)
			globals[name] = ref.L(ref.S("x"), ref.S(src))
			body = append(body, ref.Cmd{K: "let", Var: v, Expr: &ref.Expr{Op: "global", Name: name}},
				ref.Cmd{K: "print", Expr: &ref.Expr{Op: "ref", Name: v, Access: []ref.Access{{Kind: "index", Index: 1}}}, Directives: noesc})
		case "global-map":
			name := fmt.Sprintf("app.M%d", i)
			globals[name] = ref.M(map[string]ref.Value{"k": ref.S(src), "other": ref.I(1)})
			body = append(body, ref.Cmd{K: "let", Var: v, Expr: &ref.Expr{Op: "global", Name: name}},
				ref.Cmd{K: "print", Expr: &ref.Expr{Op: "ref", Name: v, Access: []ref.Access{{Kind: "key", Key: "k"}}}, Directives: noesc})
		case "param-content":
			body = append(body, ref.Cmd{K: "call", Call: &ref.Call{Target: c.Namespace + ".echo", Params: []ref.Param{{Key: "v", IsBlock: true, Content: []ref.Cmd{{K: "literal", Text: strings.ReplaceAll(src, "{/literal}", "{/ literal}")}}}}}})
			w = strings.ReplaceAll(src, "{/literal}", "{/ literal}")
		case "switch-case":
			body = append(body, ref.Cmd{K: "switch", Expr: str(src, 0), Branches: []ref.Branch{{Values: []*ref.Expr{str(src+"x", 0)}, Body: []ref.Cmd{{K: "text", Text: "no"}}}, {Values: []*ref.Expr{str(src, 1)}, Body: []ref.Cmd{{K: "text", Text: "matched"}}}}, HasElse: true, Else: []ref.Cmd{{K: "text", Text: "default"}}})
			w = "matched"
		}
		want.WriteString(w)
		body = append(body, ref.Cmd{K: "sp"}, ref.Cmd{K: "text", Text: "|"})
		want.WriteString(" |")
	}
	echo := ref.Template{Name: "echo", Params: []ref.ParamDecl{{Name: "v"}}, Body: []ref.Cmd{{K: "print", Expr: varE("v"), Directives: noesc}}}
	main := ref.Template{Name: "main", Body: body}
	p := ref.Program{Globals: globals}
	if c.TwoFiles {
		p.Files = []ref.File{{Name: "a.soy", Namespace: c.Namespace, Templates: []ref.Template{main}}, {Name: "b.soy", Namespace: c.Namespace, Templates: []ref.Template{echo}}}
	} else if c.CalleeLast {
		p.Files = []ref.File{{Name: "a.soy", Namespace: c.Namespace, Templates: []ref.Template{main, echo}}}
	} else {
		p.Files = []ref.File{{Name: "a.soy", Namespace: c.Namespace, Templates: []ref.Template{echo, main}}}
	}
	return gen.ProgCase{Prog: p, Entry: c.Namespace + ".main"}, want.String()
}

func needsJSEscape(s string) bool {
	for _, r := range s {
		if r < 0x20 || r == '\'' || r == '"' || r == '\\' || r == '<' || r == '>' || r == '&' || r == 0x2028 || r == 0x2029 || r > 0xFFFF || r == 0x7f {
			return true
		}
	}
	return false
}

var c14rec *recorder

// failedGeneration runs the generator on a bundle it must give up on (functions it does not know, used
// in the middle of let, param, range and index expressions). Whatever it had written by then must not
// turn up in a later generation.
func failedGeneration() {
	src := "{namespace zz.bad}\n/** @param a */\n{template .t}" +
		"{let $id: 'id-\"</script>' + zzNoSuchFn($a) + 'tail' /}{$id}" +
		"{call .u}{param p: 'q\\'' + zzNoSuchFn(1) /}{/call}" +
		"{foreach $i in range(1 + zzNoSuchFn(2))}{$i}{/foreach}{$a[1 + zzNoSuchFn(3)]}{/template}\n" +
		"/** @param p */\n{template .u}{$p}{/template}\n"
	cb, err, pn := compileBundle([]string{"bad.soy"}, []string{src}, nil)
	if err != nil || pn != nil {
		return
	}
	for _, f := range cb.reg.SoyFiles {
		var buf bytes.Buffer
		catch(func() { soyjs.Write(&buf, f, soyjs.Options{}) })
		catch(func() { soyjs.Write(&buf, f, soyjs.Options{Formatter: &soyjs.ES6Formatter{}}) })
	}
}

// checkC14Bundle is the structural half of the property on a whole generated bundle.
func checkC14Bundle(pc *gen.ProgCase) Verdict {
	names, srcs := gen.Sources(&pc.Prog)
	cb, err, pn := compileBundle(names, srcs, pc.Prog.Globals)
	if err != nil || pn != nil {
		return excluded("the compiler does not accept the bundle (outside the property's domain)")
	}
	var all []jsFile
	msgs := identityBundle(cb)
	for _, o := range []soyjs.Options{{}, {Messages: msgs}} {
		es5, err := jsSources(cb, o, false)
		if err != nil {
			return bad(true, "%v\n%s", err, showSources(names, srcs))
		}
		o.Formatter = &soyjs.ES6Formatter{}
		es6, err := jsSources(cb, o, true)
		if err != nil {
			return bad(true, "%v\n%s", err, showSources(names, srcs))
		}
		all = append(append(all, es5...), es6...)
	}
	var fqs []string
	for _, f := range pc.Prog.Files {
		for _, t := range f.Templates {
			fqs = append(fqs, f.Namespace+"."+t.Name)
		}
	}
	resp, err := theNode.do(jsRequest{Files: all, Typeofs: fqs})
	if err != nil {
		return excluded("infra: " + err.Error())
	}
	for i, l := range resp.Load {
		if l != nil {
			kind := "ES5"
			if all[i].Module {
				kind = "ES6"
			}
			return bad(true, "generated %s JavaScript for %s is not well-formed: %s\n%s\n%s", kind, all[i].Name, *l, showSources(names, srcs), trunc(all[i].Src, 3000))
		}
	}
	for i, ty := range resp.Typeofs {
		if ty != "function" {
			return bad(true, "template %s is not defined as a function under its qualified name (typeof = %s)\n%s", fqs[i], ty, showSources(names, srcs))
		}
	}
	// one Generator object for the whole bundle, every file written twice: each script, loaded alone,
	// still defines the templates of its file
	gnr := soyjs.NewGenerator(cb.reg)
	for round := 0; round < 2; round++ {
		for fi, f := range cb.reg.SoyFiles {
			var buf bytes.Buffer
			var werr error
			if pn := catch(func() { werr = gnr.WriteFile(&buf, f.Name) }); pn != nil || werr != nil {
				return bad(true, "Generator.WriteFile(%s) failed in round %d: %v %v\n%s", f.Name, round, werr, pn, showSources(names, srcs))
			}
			var own []string
			if fi < len(pc.Prog.Files) {
				for _, t := range pc.Prog.Files[fi].Templates {
					own = append(own, pc.Prog.Files[fi].Namespace+"."+t.Name)
				}
			}
			r1, err := theNode.do(jsRequest{Files: []jsFile{{Name: f.Name + ".js", Src: buf.String()}}, Typeofs: own})
			if err != nil {
				return excluded("infra: " + err.Error())
			}
			if r1.Load[0] != nil {
				return bad(true, "the script Generator.WriteFile wrote for %s (round %d, same Generator for every file) does not load on its own: %s\n%s", f.Name, round, *r1.Load[0], trunc(buf.String(), 2000))
			}
			for i, ty := range r1.Typeofs {
				if ty != "function" {
					return bad(true, "the script Generator.WriteFile wrote for %s (round %d) does not define %s when loaded on its own (typeof = %s)\n%s", f.Name, round, own[i], ty, trunc(buf.String(), 2000))
				}
			}
		}
	}
	// under the ES6 formatter: every template exported exactly once, and nothing both imported and declared
	for _, f := range all {
		if !f.Module {
			continue
		}
		for _, fq := range fqs {
			id := soyjs.ES6Identifier(fq)
			nExp := strings.Count(f.Src, "export function "+id+"(")
			nImp := strings.Count(f.Src, "import { "+id+" }")
			if nExp > 1 || nExp == 1 && nImp > 0 {
				return bad(true, "ES6 output of %s declares %s %d time(s) and imports it %d time(s)\n%s", f.Name, id, nExp, nImp, trunc(f.Src, 3000))
			}
		}
	}
	if c14rec != nil {
		c14rec.add("whole_bundles_translated", 1)
	}
	return ok(len(fqs) > 1, "whole-bundle")
}

func checkC14(c C14Case) Verdict {
	if c.Namespace == "hand-written tier" {
		// (the replay of a failure of that tier)
		if err := c14HostileTier(newRecorder("C14h")); err != nil {
			return bad(true, "%v", err)
		}
		return ok(true, "hand-written")
	}
	if hashCase(c)%2 == 0 {
		failedGeneration()
	}
	if c.Prog != nil {
		return checkC14Bundle(c.Prog)
	}
	if os.Getenv("VERIF_WITNESS") == "" && findingOpen("F35") {
		for _, l := range c.Lits {
			if (l.Place == "mapkey" || l.Place == "subscript" || l.Place == "subscript-raw") && l.S == "__proto__" {
				return excluded("known finding F35: map literal key __proto__")
			}
		}
	}
	pc, want := buildC14(c)
	names, srcs := gen.Sources(&pc.Prog)
	// the model's own account of the output must agree with the reference interpreter (guards the harness)
	if r := ref.Render(&pc.Prog, pc.Entry, nil, nil, false); r.Status != ref.OK || r.Out != want {
		return excluded("harness: constructed expectation disagrees with the reference interpreter")
	}
	cb, err, pn := compileBundle(names, srcs, pc.Prog.Globals)
	if err != nil || pn != nil {
		return excluded("the compiler does not accept the bundle (outside the property's domain)")
	}
	nt := false
	for _, l := range c.Lits {
		nt = nt || needsJSEscape(l.S)
	}
	es5, err := jsSources(cb, soyjs.Options{}, false)
	if err != nil {
		return bad(nt, "%v\n%s", err, showSources(names, srcs))
	}
	es6, err := jsSources(cb, soyjs.Options{Formatter: &soyjs.ES6Formatter{}}, true)
	if err != nil {
		return bad(nt, "%v\n%s", err, showSources(names, srcs))
	}
	var fqs []string
	for _, f := range pc.Prog.Files {
		for _, t := range f.Templates {
			fqs = append(fqs, f.Namespace+"."+t.Name)
		}
	}
	resp, err := theNode.do(jsRequest{Files: append(append([]jsFile{}, es5...), es6...), Typeofs: fqs, Calls: []jsCall{{Name: pc.Entry, Data: map[string]interface{}{}}}})
	if err != nil {
		return excluded("infra: " + err.Error())
	}
	if c14rec != nil {
		c14rec.add("programs_translated", 1)
	}
	all := append(append([]jsFile{}, es5...), es6...)
	for i, l := range resp.Load {
		if l != nil {
			kind := "ES5"
			if all[i].Module {
				kind = "ES6"
			}
			return bad(nt, "generated %s JavaScript for %s is not well-formed: %s\n%s\n%s", kind, all[i].Name, *l, showSources(names, srcs), trunc(all[i].Src, 3000))
		}
	}
	for i, ty := range resp.Typeofs {
		if ty != "function" {
			return bad(nt, "template %s is not defined as a function under its qualified name (typeof = %s)\n%s", fqs[i], ty, showJS(es5))
		}
	}
	r := resp.Results[0]
	if !r.OK {
		return bad(nt, "calling the generated function threw %s\n%s\n%s", r.Error, showSources(names, srcs), trunc(showJS(es5), 4000))
	}
	if c14rec != nil {
		c14rec.add("outputs_compared", 1)
	}
	if r.Out != want {
		return bad(nt, "a literal does not denote its original characters in JavaScript\n js   %q\n want %q\n%s\n%s", trunc(r.Out, 500), trunc(want, 500), trunc(showSources(names, srcs), 3000), trunc(showJS(es5), 3000))
	}
	v := ok(nt)
	for _, l := range c.Lits {
		v.Classes = append(v.Classes, "place:"+l.Place)
	}
	return v
}

func TestC14(t *testing.T) {
	c14rec = newRecorder("C14x")
	defer c14rec.flush()
	defer theNode.stop()
	if shard() == "0" && os.Getenv("VERIF_REPLAY") == "" && os.Getenv("VERIF_CORPUS_ONLY") == "" {
		if err := c14HostileTier(c14rec); err != nil {
			c := C14Case{Namespace: "hand-written tier"}
			writeFail("C14", c, err)
			c14rec.flush()
			t.Fatalf("hand-written tier: %v", err)
		}
	}
	runProp(t, "C14", genC14, checkC14)
}
