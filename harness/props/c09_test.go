package props

import (
	"bytes"
	"fmt"
	"github.com/robfig/soy"
	"os"
	"reflect"
	"runtime"
	"sort"
	"strconv"
	"strings"
	"sync"
	"sync/atomic"
	"testing"

	"io"
	"net/textproto"
	"unicode/utf8"

	"github.com/robfig/gettext/po"
	"github.com/robfig/soy/ast"
	"github.com/robfig/soy/data"
	"github.com/robfig/soy/soyhtml"
	"github.com/robfig/soy/soyjs"
	"github.com/robfig/soy/soymsg"
	"github.com/robfig/soy/soymsg/pomsg"
	"pgregory.net/rapid"

	"verif/harness/gen"
	"verif/harness/ref"
)

// C09: one compiled bundle is rendered from many goroutines at once. The
// binary is built with the race detector; every goroutine's bytes must equal
// the sequential output computed beforehand. Schedule exploration is whatever
// the Go scheduler produces over repeated rounds under several GOMAXPROCS
// values - rapid.Check is not used (a schedule-dependent failure cannot be
// shrunk); the case file holds the bundles and the driver replays it.

type C09Case struct {
	Prog  gen.ProgCase `json:"prog"`
	Other gen.ProgCase `json:"other"` // an independent bundle compiled concurrently
	Seed  int          `json:"seed"`
	// Obligatory: an obligatory print directive is configured while rendering
	Obligatory bool `json:"obligatory,omitempty"`
}

func c09Gen(t *rapid.T) C09Case {
	g := &gen.G{T: t, P: gen.Profile{Unicode: true, HTMLChars: true, Directives: true}}
	o := gen.ProgOpts{MaxTemplates: 5, MaxDepth: 3, MaxCmds: 4, ExprDepth: 2, PosWeight: 2, CallWeight: 10, ScopeWeight: 4, MinTemplates: 3, AllData: true, MsgStress: 40, MsgWeight: 4, NoLog: true}
	if g.Chance(50) {
		// a large bundle (size-dependent code paths such as lookup tables)
		o.MaxTemplates, o.MinTemplates, o.MaxCmds = 16, 10, 3
	}
	c := C09Case{Prog: gen.GenProgram(g, o)}
	g2 := &gen.G{T: t, P: g.P}
	c.Other = gen.GenProgram(g2, o)
	return c
}

type c09Target struct {
	fq   string
	d    data.Map
	msgs bool
	want string
	werr bool
	// view: the data can be handed over as a Go struct (Tofu.Render converts it); vwant/vwerr is what
	// that gives sequentially
	view  bool
	vwant string
	vwerr bool
}

var c09ViewSeq int64

// viewStruct builds a value of a struct type that no conversion has seen before (one exported field per
// data key, plus a field whose name is unique in the process): applications hand such view structs to
// Tofu.Render from request goroutines, and the first conversions of different types coincide.
func viewStruct(d data.Map) (v interface{}, usable bool) {
	var keys []string
	for k := range d {
		if k == "" || k[0] < 'a' || k[0] > 'z' {
			return nil, false
		}
		for i := 0; i < len(k); i++ {
			if c := k[i]; !(c >= 'a' && c <= 'z' || c >= 'A' && c <= 'Z' || c >= '0' && c <= '9' || c == '_') {
				return nil, false
			}
		}
		keys = append(keys, k)
	}
	sort.Strings(keys)
	anyT := reflect.TypeOf((*interface{})(nil)).Elem()
	fields := []reflect.StructField{}
	for _, k := range keys {
		fields = append(fields, reflect.StructField{Name: strings.ToUpper(k[:1]) + k[1:], Type: anyT})
	}
	fields = append(fields, reflect.StructField{Name: fmt.Sprintf("ZzView%d", atomic.AddInt64(&c09ViewSeq, 1)), Type: reflect.TypeOf(0)})
	sv := reflect.New(reflect.StructOf(fields)).Elem()
	for i, k := range keys {
		sv.Field(i).Set(reflect.ValueOf(&[]interface{}{d[k]}[0]).Elem())
	}
	return sv.Interface(), true
}

// runC09 exercises one case; returns a description of the first output mismatch.
// c09Builtins is a template that calls every built-in function and print directive with fixed
// arguments (whatever state a built-in keeps is shared by all renders of the process).
const c09Builtins = `
/** */
{template .zzBuiltins}
{let $ks: keys(['a': 1]) /}{let $am: augmentMap(['a': 1], ['b': 2]) /}
{randomInt(1)}{randomInt(1) + randomInt(1)}{length([1, 2])}{$ks[0]}{round(2.4)}{round(3.14159, 2)}{floor(1.5)}{ceiling(1.2)}
{min(1, 2)}{max(1.5, 2)}{strContains('abc', 'b')}{isNonnull(1)}{$am.b}
{foreach $i in range(1, 7, 2)}{$i}{index($i)}{isFirst($i)}{isLast($i)}{/foreach}{hasData()}
{'<a b>'|escapeHtml}{'a b&c'|escapeUri}{'it\'s'|escapeJsString}{'a\nb'|changeNewlineToBr}{'abcdefghij'|insertWordBreaks:3}{'abcdefghij'|truncate:5}{['k': [1, 'x']]|json}{'<i>'|noAutoescape}{'<i>'|id}
{css base}{msg desc="d"}Hello <b>{randomInt(1)}</b>{/msg}
{'a b'|noAutoescape|escapeUri|id}{'ab<c'|escapeHtml|truncate:9|insertWordBreaks:30}{'q'|id|noAutoescape|escapeJsString|escapeUri|id}{'r'|id|id|id|id|id|id}{'s'|id|id|id|id|id|id|id}
{/template}

/**
 * @param opts
 * @param? more
 */
{template .zzShared}
{call .zzEcho data="$opts ?: [:]"}{param x: 1 /}{/call}
{call .zzEcho data="$more ? $more : $opts"}{param x}two{/param}{/call}
{call .zzEcho data="$opts"}{param y: 3 /}{/call}
{call .zzEcho data="all"}{param x: $opts.y /}{/call}
{/template}

/**
 * @param? x
 * @param? y
 */
{template .zzEcho}[{$x ?: ''}|{$y ?: ''}]{/template}

/** @param n */
{template .zzDeep}{if $n > 0}{$n % 10}{call .zzDeep}{param n: $n - 1 /}{/call}{/if}{/template}
`

// memOpener hands pomsg.Load its catalogues from memory.
type memOpener map[string]string

func (m memOpener) Open(locale string) (io.ReadCloser, error) {
	if s, ok := m[locale]; ok {
		return io.NopCloser(strings.NewReader(s)), nil
	}
	return nil, nil
}

// c09Provider loads a French catalogue with a (marked) identity translation of every message of the
// bundle that has no plural.
func c09Provider(cb *compiled) soymsg.Provider {
	var file po.File
	file.Header = textproto.MIMEHeader{}
	file.Header.Set("Language", "fr")
	file.Header.Set("Plural-Forms", "nplurals=2; plural=(n > 1);")
	file.Header.Set("Content-Type", "text/plain; charset=UTF-8")
	seen := map[uint64]bool{}
	for _, t := range cb.reg.Templates {
		collectMsgs(t.Node, func(m *ast.MsgNode) {
			for _, ch := range m.Body.Children() {
				if _, isPl := ch.(*ast.MsgPluralNode); isPl {
					return
				}
			}
			ps := soymsg.PlaceholderString(m)
			if m.ID == 0 || seen[m.ID] || ps == "" || !utf8.ValidString(ps) {
				return
			}
			seen[m.ID] = true
			file.Messages = append(file.Messages, po.Message{Comment: po.Comment{References: []string{fmt.Sprintf("id=%d", m.ID)}}, Id: ps, Str: []string{"«" + ps + "»"}})
		})
	}
	var buf bytes.Buffer
	file.WriteTo(&buf)
	prov, err := pomsg.Load(memOpener{"fr": buf.String()}, []string{"fr"})
	if err != nil {
		return nil // (the catalogue does not load: C11's matter)
	}
	return prov
}

func runC09(c C09Case, rounds int, rec *recorder) error {
	names, srcs := gen.Sources(&c.Prog.Prog)
	if len(srcs) > 0 {
		srcs[0] += c09Builtins
		if c.Prog.AllData == nil {
			c.Prog.AllData = map[string]map[string]ref.Value{}
		}
		c.Prog.AllData[c.Prog.Prog.Files[0].Namespace+".zzBuiltins"] = nil
		// (one data map, with a nested map, shared by every goroutine that renders this template)
		// (a few hundred nested calls: many renders in flight hold thousands of call levels between them)
		c.Prog.AllData[c.Prog.Prog.Files[0].Namespace+".zzDeep"] = map[string]ref.Value{"n": ref.I(300)}
		c.Prog.AllData[c.Prog.Prog.Files[0].Namespace+".zzShared"] = map[string]ref.Value{"opts": ref.M(map[string]ref.Value{"y": ref.S("why")})}
	}
	// (part of the bundles are put together through the lower-level API, with and without the message pass)
	switch hashCase(c) % 5 {
	case 0:
		handBuilt = 1
	case 1, 2:
		handBuilt = 2
	}
	defer func() { handBuilt = 0 }() // (every compilation of this case, by whichever goroutine, goes the same way)
	cb, err, pn := compileBundle(names, srcs, c.Prog.Prog.Globals)
	if err != nil || pn != nil {
		if strings.Contains(fmt.Sprint(err, pn), "zzBuiltins") {
			fmt.Printf("INFRA: the harness's own template of built-ins does not compile: %v %v\n", err, pn)
			os.Exit(2)
		}
		return nil // not this property's matter
	}
	_ = cb
	if c.Obligatory {
		saved := soyhtml.ObligatoryPrintDirectiveNames
		soyhtml.ObligatoryPrintDirectiveNames = []string{"id"}
		defer func() { soyhtml.ObligatoryPrintDirectiveNames = saved }()
	}
	onames, osrcs := gen.Sources(&c.Other.Prog)
	ij := toDataMap(c.Prog.IJ)
	msgs := identityBundle(cb)
	// (half of the cases take their catalogue from a provider of PO files, which every goroutine asks for
	// the bundle of its own request's locale: regional locales that all fall back to the one catalogue)
	var prov soymsg.Provider
	var provN int32
	if hashCase(c)%2 == 0 {
		prov = c09Provider(cb)
	}
	regions := []string{"CA", "BE", "CH", "LU", "MC", "SN", "CI", "ML", "CM", "MG", "HT", "DZ", "MA", "TN", "BF", "NE", "TD", "GN", "RW", "BI", "BJ", "TG", "CF", "CG", "GA", "DJ", "KM", "VU", "SC", "MU"}
	pickBundle := func() soymsg.Bundle {
		if prov == nil {
			return msgs
		}
		n := int(atomic.AddInt32(&provN, 1))
		if n%5 == 0 {
			return prov.Bundle("fr")
		}
		return prov.Bundle("fr_" + regions[n%len(regions)])
	}
	render := func(tg *c09Target) (string, bool) {
		var buf bytes.Buffer
		rd := cb.tofu.NewRenderer(tg.fq)
		if c.Prog.HasIJ {
			rd.Inject(ij)
		}
		if tg.msgs {
			rd.WithMessages(pickBundle())
		}
		err := rd.Execute(&buf, tg.d)
		return buf.String(), err != nil
	}
	renderView := func(tg *c09Target) (string, bool) {
		v, _ := viewStruct(tg.d)
		var buf bytes.Buffer
		err := cb.tofu.Render(&buf, tg.fq, v)
		return buf.String(), err != nil
	}
	// sequential reference
	var targets []*c09Target
	for fq, d := range c.Prog.AllData {
		for _, m := range []bool{false, true} {
			tg := &c09Target{fq: fq, d: toDataMap(d), msgs: m}
			tg.want, tg.werr = render(tg)
			if _, usable := viewStruct(tg.d); usable && !m && len(tg.d) > 0 {
				tg.view = true
				tg.vwant, tg.vwerr = renderView(tg)
			}
			targets = append(targets, tg)
		}
		// the same template over data in which every collection is null: renders that fail (in the middle
		// of a data reference, mostly) run next to renders of the same template that do not
		broken, any := data.Map{}, false
		for k, v := range toDataMap(d) {
			switch v.(type) {
			case data.Map, data.List:
				broken[k], any = data.Null{}, true
			default:
				broken[k] = v
			}
		}
		if any {
			tg := &c09Target{fq: fq, d: broken}
			tg.want, tg.werr = render(tg)
			targets = append(targets, tg)
		}
	}
	if len(targets) == 0 {
		return nil
	}
	var jsWant []string
	for _, f := range cb.reg.SoyFiles {
		var buf bytes.Buffer
		soyjs.Write(&buf, f, soyjs.Options{Messages: msgs})
		jsWant = append(jsWant, buf.String())
	}
	sharedGlobals := toDataMap(c.Other.Prog.Globals)
	if sharedGlobals == nil {
		sharedGlobals = data.Map{}
	}
	sharedGlobals["zz.shared"] = data.String("s")
	sharedDigest := deepDigest(sharedGlobals)
	configs := [][2]int{{2, 2}, {4, 4}, {8, 16}, {16, 16}, {8, 2}, {3, 1}}
	if !thorough() && os.Getenv("VERIF_REPLAY") == "" {
		configs = configs[:3]
	}
	defer runtime.GOMAXPROCS(runtime.GOMAXPROCS(0))
	for _, cfg := range configs {
		G, procs := cfg[0], cfg[1]
		runtime.GOMAXPROCS(procs)
		// a freshly compiled bundle: its very first renders happen concurrently
		// (lazily built state would be initialised under contention)
		fresh, ferr, fpn := compileBundle(names, srcs, c.Prog.Prog.Globals)
		if ferr != nil || fpn != nil {
			return fmt.Errorf("recompiling the bundle failed: %v %v", ferr, fpn)
		}
		cb = fresh
		msgs = identityBundle(cb)
		if prov != nil {
			prov = c09Provider(cb) // (a provider nobody has asked anything yet)
		}
		var (
			wg      sync.WaitGroup
			start   = make(chan struct{})
			mu      sync.Mutex
			failure error
		)
		for gi := 0; gi < G; gi++ {
			wg.Add(1)
			go func(gi int) {
				defer wg.Done()
				<-start
				for r := 0; r < rounds; r++ {
					k := (gi*7 + r*13 + c.Seed) % (len(targets) + 2)
					switch {
					case k < len(targets):
						// the same template over the same shared data map from several goroutines
						tg := targets[(gi+r)%len(targets)]
						if r%3 == 0 {
							tg = targets[r%len(targets)]
						}
						got, gerr := "", false
						want, werr := tg.want, tg.werr
						if tg.view && (gi+r)%3 != 0 {
							// the data as a view struct of a type that is converted for the first time here
							got, gerr = renderView(tg)
							want, werr = tg.vwant, tg.vwerr
						} else {
							got, gerr = render(tg)
						}
						if got != want || gerr != werr {
							mu.Lock()
							if failure == nil {
								failure = fmt.Errorf("goroutine %d of %d (GOMAXPROCS %d) round %d: render of %s gave %q (error=%v), alone it gives %q (error=%v)", gi, G, procs, r, tg.fq, trunc(got, 300), gerr, trunc(want, 300), werr)
							}
							mu.Unlock()
							return
						}
					case k == len(targets):
						fi := (gi + r) % len(cb.reg.SoyFiles)
						var buf bytes.Buffer
						soyjs.Write(&buf, cb.reg.SoyFiles[fi], soyjs.Options{Messages: msgs})
						if buf.String() != jsWant[fi] {
							mu.Lock()
							if failure == nil {
								failure = fmt.Errorf("goroutine %d: concurrent JavaScript generation for %s differs from the sequential result", gi, cb.reg.SoyFiles[fi].Name)
							}
							mu.Unlock()
							return
						}
					default:
						if (gi+r)%2 == 0 {
							// (a bundle of many files every other time: small files of their own namespaces are added)
							onames, osrcs := onames, osrcs
							if (gi+r)%8 < 4 {
								onames, osrcs = append([]string{}, onames...), append([]string{}, osrcs...)
								for pi := 0; pi < 3+(gi+r)%5; pi++ {
									onames = append(onames, fmt.Sprintf("pad%d.soy", pi))
									osrcs = append(osrcs, fmt.Sprintf("{namespace zz.pad%d}\n\n/** */\n{template .t}\npad {$ij.x ?: 'none'}\n{/template}\n", pi))
								}
							}
							if (gi+r)%4 == 0 && len(osrcs) > 0 {
								// a bundle that is rejected (a syntax error in the middle of a file, text and
								// tags on the lines after it): error reporting is concurrent use too
								bad := append([]string{}, osrcs...)
								if strings.Contains(bad[0], "{template ") {
									bad[0] = strings.Replace(bad[0], "{template ", "/** */\n{template .zzBad"+strconv.Itoa(gi)+"}\n{if $a == }\nline one\n  line two\n{/if}\nmore\n{/template}\n\n/** */\n{template ", 1)
									if _, berr, bpn := compileBundle(onames, bad, c.Other.Prog.Globals); berr == nil && bpn == nil {
										mu.Lock()
										if failure == nil {
											failure = fmt.Errorf("goroutine %d: a bundle of %d files whose first file has a syntax error was compiled without an error while other goroutines compile and render", gi, len(bad))
										}
										mu.Unlock()
										return
									}
								}
								break
							}
							compileBundle(onames, osrcs, c.Other.Prog.Globals)
							break
						}
						// independent bundles that were given the same application-wide globals map, and
						// one more global each
						catch(func() {
							b := soy.NewBundle()
							for i := range onames {
								b.AddTemplateString(onames[i], osrcs[i])
							}
							b.AddGlobalsMap(sharedGlobals)
							b.AddGlobalsMap(data.Map{fmt.Sprintf("zz.extra%d", gi): data.Int(r)})
							b.Compile()
						})
					}
				}
			}(gi)
		}
		close(start)
		wg.Wait()
		if rec != nil {
			rec.add("goroutine_rounds", G*rounds)
			rec.add("configurations", 1)
		}
		if failure != nil {
			return failure
		}
		if deepDigest(sharedGlobals) != sharedDigest {
			return fmt.Errorf("the globals map given to several independent bundles was modified by their compilation (now %d entries)", len(sharedGlobals))
		}
	}
	return nil
}

func TestC09(t *testing.T) {
	if p := os.Getenv("VERIF_REPLAY"); p != "" {
		var c C09Case
		if err := loadCase(p, &c); err != nil {
			fmt.Printf("INFRA: cannot load replay file: %v\n", err)
			os.Exit(2)
		}
		if err := runC09(c, 3000, nil); err != nil {
			fmt.Printf("REPLAY-FAIL property=C09: %v\n", err)
			t.Fatal(err)
		}
		fmt.Println("REPLAY-PASS property=C09 (no mismatch; a race report, if any, is printed by the race detector)")
		return
	}
	rec := newRecorder("C09")
	defer rec.flush()
	// the harness's own template must compile and render, or every case would silently lose it
	if cb, err, pn := compileBundle([]string{"zz.soy"}, []string{"{namespace zz}\n" + c09Builtins}, nil); err != nil || pn != nil {
		fmt.Printf("INFRA: the harness's own template of built-ins does not compile: %v %v\n", err, pn)
		os.Exit(2)
	} else if rr := cb.render("zz.zzBuiltins", nil, nil, false); rr.err != nil || rr.panicked != nil {
		fmt.Printf("INFRA: the harness's own template of built-ins does not render: %v %v\n", rr.err, rr.panicked)
		os.Exit(2)
	}
	seed, _ := strconv.Atoi(os.Getenv("VERIF_SEED"))
	sh, _ := strconv.Atoi(shard())
	nb := scale(6, 14)
	rounds := scale(200, 1200)
	genr := rapid.Custom(c09Gen)
	for b := 0; b < nb; b++ {
		c := genr.Example(seed*1000 + sh*100 + b + 1)
		c.Seed = b
		c.Obligatory = b%2 == 1
		writeCurrent("C09", c)
		err := runC09(c, rounds, rec)
		v := ok(true, fmt.Sprintf("templates:%s", bucket(len(c.Prog.AllData))))
		if err != nil {
			v = bad(true, "%v", err)
		}
		rec.record(c, v)
		if err != nil {
			writeFail("C09", c, err)
			t.Fatalf("%v", err)
		}
	}
	// the 'current' file is left in place: if the race detector fails the test at exit,
	// the driver needs the last bundle
}
