//go:build verif

package props

import (
	"github.com/robfig/soy/parse"
)

const hooksEnabled = true

func parseSteps() int64 { return parse.VerifSteps() }
