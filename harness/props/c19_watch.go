package props

import (
	"bytes"
	"fmt"
	"log"
	"os"
	"path/filepath"
	"strings"
	"sync/atomic"
	"time"

	"github.com/robfig/soy"
	"github.com/robfig/soy/data"
	"github.com/robfig/soy/errortypes"
	"github.com/robfig/soy/soyhtml"
)

// The watch tier of C19: a bundle compiled with WatchFiles(true) recompiles itself when a file changes.
// A render that is under way at that moment fails afterwards: the line its error carries is the line of
// the failing command in the file as it was rendered, or as it is now - not a line that holds the command
// in neither version. (A watcher cannot be closed: a process runs the tier for its first two eligible
// cases; no notification in time = inconclusive, never a violation.)

var c19Watches int32

// c19Watch returns (violation, inconclusive reason). lines: the body lines in front of the failing print.
func c19Watch(lines []string, shift int) (error, string) {
	if atomic.AddInt32(&c19Watches, 1) > 2 {
		return nil, "n/a"
	}
	dir := filepath.Join(outDir(), fmt.Sprintf("c19-watch-%s-%d", shard(), atomic.LoadInt32(&c19Watches)))
	os.RemoveAll(dir)
	if err := os.MkdirAll(dir, 0o755); err != nil {
		return nil, "cannot create directory"
	}
	// (the directory stays: removing it would wake the watcher, which outlives this case)
	entered, release := make(chan struct{}, 1), make(chan struct{})
	soyhtml.Funcs["verifHold"] = soyhtml.Func{Apply: func([]data.Value) data.Value {
		select {
		case entered <- struct{}{}:
		default:
		}
		select {
		case <-release:
		case <-time.After(20 * time.Second):
		}
		return data.String("")
	}, ValidArgLengths: []int{0}}
	defer delete(soyhtml.Funcs, "verifHold")

	head := "{namespace ns.c19w}\n\n/** @param a */\n{template .main}\n"
	body := strings.Join(lines, "\n")
	if body != "" {
		body += "\n"
	}
	src := head + body + "{verifHold()}\n{$a.nokey.deeper}\nafter\n{/template}\n"
	failLine := 4 + len(lines) + 2
	path := filepath.Join(dir, "page.soy")
	if err := os.WriteFile(path, []byte(src), 0o644); err != nil {
		return nil, "cannot write file"
	}
	c13LogMu.Lock()
	defer c13LogMu.Unlock()
	sig := signalWriter{make(chan string, 16)}
	saved := soy.Logger
	soy.Logger = log.New(sig, "", 0)
	defer func() { soy.Logger = saved }()

	tofu, err := soy.NewBundle().WatchFiles(true).AddTemplateFile(path).CompileToTofu()
	if err != nil {
		close(release)
		return nil, "does not compile: " + err.Error()
	}
	type result struct {
		err error
		pn  interface{}
	}
	done := make(chan result, 1)
	go func() {
		var buf bytes.Buffer
		var r result
		r.pn = catch(func() { r.err = tofu.Render(&buf, "ns.c19w.main", map[string]interface{}{"a": 1}) })
		done <- r
	}()
	select {
	case <-entered:
	case <-time.After(5 * time.Second):
		close(release)
		return nil, "the render did not reach the held function"
	}
	// the change: comment lines in front of everything
	changed := strings.Repeat("// a line of the licence header\n", shift) + src
	time.Sleep(20 * time.Millisecond)
	if err := os.WriteFile(path, []byte(changed), 0o644); err != nil {
		close(release)
		return nil, "cannot rewrite file"
	}
	deadline := time.After(4 * time.Second)
	updated := false
	for !updated {
		select {
		case line := <-sig.ch:
			if strings.Contains(line, dir) && strings.Contains(line, "update successful") {
				updated = true
			}
		case <-deadline:
			close(release)
			<-done
			return nil, "no update notification within 4 s"
		}
	}
	time.Sleep(30 * time.Millisecond)
	close(release)
	var r result
	select {
	case r = <-done:
	case <-time.After(10 * time.Second):
		return nil, "the render did not finish"
	}
	if r.pn != nil {
		return fmt.Errorf("a render that was under way while its file was recompiled panicked: %v", r.pn), ""
	}
	if r.err == nil {
		return fmt.Errorf("a failing render that was under way while its file was recompiled returned no error"), ""
	}
	fp := errortypes.ToErrFilePos(r.err)
	if fp == nil {
		return fmt.Errorf("render error carries no file position: %v", r.err), ""
	}
	if fp.File() != path {
		return fmt.Errorf("render error names file %q, the template is defined in %q", fp.File(), path), ""
	}
	if fp.Line() != failLine && fp.Line() != failLine+shift {
		return fmt.Errorf("a render was under way while its file gained %d lines at the top and was recompiled; its error is reported at line %d - the failing command stands on line %d of the file as it was rendered and on line %d of the file as it is now\n%v\n%s",
			shift, fp.Line(), failLine, failLine+shift, trunc(r.err.Error(), 300), numbered(src)), ""
	}
	return nil, ""
}
