package props

import (
	"github.com/robfig/soy/soyjs"
	"bytes"
	"errors"
	"fmt"
	"io"
	"testing"

	"pgregory.net/rapid"

	"verif/harness/gen"
	"verif/harness/ref"
)

// C12: a failing output writer always surfaces as a render error, and what the
// writer accepted before failing is a prefix of the fault-free output.
// Fault enumeration: for each generated program, every write-call index and
// every byte offset of the fault-free run gets a fault injected.

var errInjected = errors.New("injected write failure")

// faultWriter fails at write call failCall (if >= 0) or once more than
// capacity bytes would be accepted (if capacity >= 0). sticky: every later
// write fails too (a dead connection); otherwise only that one write fails.
type faultWriter struct {
	failCall   int
	capacity   int
	sticky     bool
	calls      int
	accepted   bytes.Buffer
	beforeFail int // bytes accepted before the first failure
	temporary  bool // the failing call accepts half of its bytes and returns an error that calls itself temporary
	failed     bool
}

func (w *faultWriter) Write(p []byte) (int, error) {
	call := w.calls
	w.calls++
	if w.failed && w.sticky {
		return 0, errInjected
	}
	if w.failCall >= 0 && call == w.failCall {
		w.fail()
		if w.temporary {
			// (a deadline or a full send buffer: part of the bytes went out, and the error says "try again")
			n := len(p) / 2
			w.accepted.Write(p[:n])
			return n, tempErr{}
		}
		return 0, errInjected
	}
	if w.capacity >= 0 && w.accepted.Len()+len(p) > w.capacity {
		n := w.capacity - w.accepted.Len()
		if n < 0 {
			n = 0
		}
		w.accepted.Write(p[:n])
		w.fail()
		return n, io.ErrShortWrite
	}
	w.accepted.Write(p)
	return len(p), nil
}

// tempErr follows the convention of net.Error.
type tempErr struct{}

func (tempErr) Error() string   { return "injected: resource temporarily unavailable" }
func (tempErr) Temporary() bool { return true }
func (tempErr) Timeout() bool   { return true }

func (w *faultWriter) fail() {
	if !w.failed {
		w.failed = true
		w.beforeFail = w.accepted.Len()
	}
}

// c12Deep is a count-down template: more than a hundred nested calls, a write at every level.
func c12Deep(n int) gen.ProgCase {
	nref := &ref.Expr{Op: "ref", Name: "n"}
	deep := ref.Template{Name: "deep", Params: []ref.ParamDecl{{Name: "n"}}, Body: []ref.Cmd{
		{K: "print", Expr: nref}, {K: "text", Text: ","},
		{K: "if", Branches: []ref.Branch{{Cond: &ref.Expr{Op: ">", Args: []*ref.Expr{nref, {Op: "int", I: 0}}}, Body: []ref.Cmd{
			{K: "call", Call: &ref.Call{Target: "c12.deep", Params: []ref.Param{{Key: "n", Value: &ref.Expr{Op: "-", Args: []*ref.Expr{nref, {Op: "int", I: 1}}}}}}},
			{K: "text", Text: ";"}}}}}}}
	return gen.ProgCase{Prog: ref.Program{Files: []ref.File{{Name: "deep.soy", Namespace: "c12", Templates: []ref.Template{deep}}}},
		Entry: "c12.deep", Data: map[string]ref.Value{"n": ref.I(int64(n))}}
}

func genC12(t *rapid.T) gen.ProgCase {
	if rapid.IntRange(0, 149).Draw(t, "deep") == 77 {
		return c12Deep(rapid.IntRange(90, 160).Draw(t, "depth"))
	}
	g := &gen.G{T: t, P: gen.Profile{Unicode: true, HTMLChars: true, Directives: true}}
	return gen.GenProgram(g, gen.ProgOpts{MaxTemplates: 4, MaxDepth: 3, MaxCmds: 4, ExprDepth: 2, PosWeight: 2, CallWeight: 8, MinTemplates: 1, MsgWeight: 8})
}

// c12Bundle, when set, is the message bundle the renders of the current case use.
var c12Bundle *mapBundle

// c12ViaTofu: render through Tofu.Render (the convenience entry point) instead of Renderer.Execute.
var c12ViaTofu bool

// richWriter is the same writer with the optional methods that writers of the standard library have
// (bufio, gzip, os.File, net connections): all of them succeed - only Write reports the failure.
type richWriter struct{ w *faultWriter }

func (r richWriter) Write(p []byte) (int, error)       { return r.w.Write(p) }
func (r richWriter) WriteString(s string) (int, error) { return r.w.Write([]byte(s)) }
func (r richWriter) Flush() error                      { return nil }
func (r richWriter) Sync() error                       { return nil }
func (r richWriter) Close() error                      { return nil }

func renderTo(cb *compiled, c gen.ProgCase, w io.Writer) (err error, pn interface{}) {
	if fw, isFault := w.(*faultWriter); isFault && (fw.failCall+fw.capacity)%2 == 0 {
		w = richWriter{fw}
	}
	pn = catch(func() {
		if c12ViaTofu {
			err = cb.tofu.Render(w, c.Entry, toDataMap(c.Data))
			return
		}
		rd := cb.tofu.NewRenderer(c.Entry)
		if c12Bundle != nil {
			rd.WithMessages(c12Bundle)
		}
		if c.HasIJ {
			rd.Inject(toDataMap(c.IJ))
		}
		err = rd.Execute(w, toDataMap(c.Data))
	})
	return
}

var c12rec *recorder

func checkC12(c gen.ProgCase) Verdict {
	names, srcs := gen.Sources(&c.Prog)
	want := ref.Render(&c.Prog, c.Entry, c.Data, c.IJ, c.HasIJ)
	if want.Status != ref.OK {
		return excluded("program does not render fault-free (" + want.Status.String() + ": " + firstWords(want.Msg, 4) + ")")
	}
	cb, err, pn := compileBundle(names, srcs, c.Prog.Globals)
	if err != nil || pn != nil {
		return excluded("does not compile (C01/C02 matter)")
	}
	// half of the cases render through a message bundle (translated text and placeholders are
	// written by different code than the source text of a message)
	c12Bundle = nil
	if hashCase(c)%2 == 0 {
		c12Bundle = identityBundle(cb)
	}
	defer func() { c12Bundle = nil }()
	base := &faultWriter{failCall: -1, capacity: -1}
	if err, pn := renderTo(cb, c, base); err != nil || pn != nil {
		return bad(true, "fault-free render failed: %v %v\n%s", err, pn, showSources(names, srcs))
	}
	W, out := base.calls, base.accepted.Bytes()
	B := len(out)
	nontrivial := 0
	check := func(w *faultWriter, what string) error {
		err, pn := renderTo(cb, c, w)
		if c12ViaTofu {
			what += " [through Tofu.Render]"
		}
		if pn != nil {
			return fmt.Errorf("%s: render panicked: %v", what, pn)
		}
		if !w.failed {
			if err != nil {
				return fmt.Errorf("%s: no write failed, yet the render returned %v", what, err)
			}
			if !bytes.Equal(w.accepted.Bytes(), out) {
				return fmt.Errorf("%s: no write failed but the output changed", what)
			}
			return nil
		}
		if err == nil {
			return fmt.Errorf("%s: the writer failed but the render returned nil (accepted %d of %d bytes)", what, w.accepted.Len(), B)
		}
		acc := w.accepted.Bytes()
		if !w.sticky {
			acc = acc[:w.beforeFail]
		}
		if !bytes.HasPrefix(out, acc) {
			return fmt.Errorf("%s: accepted bytes %q are not a prefix of the fault-free output %q", what, trunc(string(acc), 200), trunc(string(out), 200))
		}
		return nil
	}
	renders := 0
	step := 1
	if B > 2000 {
		step = B / 1000
	}
	entries := []bool{false}
	if c12Bundle == nil && !c.HasIJ {
		entries = []bool{false, true} // also through Tofu.Render, which takes neither injected data nor messages
	}
	defer func() { c12ViaTofu = false }()
	for _, via := range entries {
		c12ViaTofu = via
		kstep := 1
		if W > 256 {
			kstep = 3 // (very many writes: every third one, starting at a different one for each entry point)
		}
		k0 := 0
		if kstep > 1 {
			k0 = b2i(via)
		}
		for k := k0; k < W; k += kstep {
			for _, sticky := range []bool{true, false} {
				renders++
				if err := check(&faultWriter{failCall: k, capacity: -1, sticky: sticky, temporary: !sticky && k%2 == 1}, fmt.Sprintf("write call %d of %d fails (sticky=%v)", k, W, sticky)); err != nil {
					return bad(true, "%v\n%s data=%v", err, showSources(names, srcs), c.Data)
				}
			}
			if k > 0 && k < W-1 {
				nontrivial++
			}
		}
		for b := 0; b < B; b += step {
			renders++
			if err := check(&faultWriter{failCall: -1, capacity: b, sticky: true}, fmt.Sprintf("writer accepts only %d of %d bytes", b, B)); err != nil {
				return bad(true, "%v\n%s data=%v", err, showSources(names, srcs), c.Data)
			}
		}
		// a writer with exactly enough capacity must see no error
		renders++
		if err := check(&faultWriter{failCall: -1, capacity: B, sticky: true}, "writer with exactly enough capacity"); err != nil {
			return bad(true, "%v\n%s", err, showSources(names, srcs))
		}
	}
	// the library's other function that takes a writer: the JavaScript of a file is written to it, and
	// "the first error encountered is returned" (for part of the cases: ES5 and ES6, every write call)
	if hashCase(c)%4 == 1 {
		for _, f := range cb.reg.SoyFiles {
			for fi, formatter := range []soyjs.JSFormatter{&soyjs.ES5Formatter{}, &soyjs.ES6Formatter{}} {
				full := &faultWriter{failCall: -1, capacity: -1}
				if werr := soyjs.Write(full, f, soyjs.Options{Formatter: formatter}); werr != nil {
					continue // (no translation: not this property's matter)
				}
				for k := 0; k < full.calls; k++ {
					w := &faultWriter{failCall: k, capacity: -1, sticky: k%2 == 0}
					var werr error
					if p := catch(func() { werr = soyjs.Write(w, f, soyjs.Options{Formatter: formatter}) }); p != nil {
						return bad(true, "soyjs.Write panicked when write call %d failed: %v\n%s", k, p, showSources(names, srcs))
					}
					acc := w.accepted.Bytes()
					if !w.sticky {
						acc = acc[:w.beforeFail]
					}
					if werr == nil {
						return bad(true, "soyjs.Write of %s (formatter %d): write call %d of %d failed but Write returned nil (the writer holds %d of %d bytes)\n%s", f.Name, fi, k, full.calls, w.accepted.Len(), full.accepted.Len(), showSources(names, srcs))
					}
					if !bytes.HasPrefix(full.accepted.Bytes(), acc) {
						return bad(true, "soyjs.Write of %s (formatter %d): after write call %d failed the writer holds text that is not a prefix of the script", f.Name, fi, k)
					}
				}
				if c12rec != nil {
					c12rec.add("js_generation_fault_runs", full.calls)
				}
			}
		}
	}
	if c12rec != nil {
		c12rec.add("fault_renders", renders)
		c12rec.add("write_calls_enumerated", W)
		c12rec.add("byte_offsets_enumerated", (B+step-1)/step)
	}
	v := ok(nontrivial > 0, fmt.Sprintf("writes:%s", bucket(W)), fmt.Sprintf("bytes:%s", bucket(B)))
	return v
}

func bucket(n int) string {
	switch {
	case n == 0:
		return "0"
	case n < 4:
		return "1-3"
	case n < 16:
		return "4-15"
	case n < 64:
		return "16-63"
	case n < 256:
		return "64-255"
	}
	return ">=256"
}

func TestC12(t *testing.T) {
	c12rec = newRecorder("C12x")
	defer c12rec.flush()
	runProp(t, "C12", genC12, checkC12)
}
