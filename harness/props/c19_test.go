package props

import (
	"github.com/robfig/soy/template"
	"github.com/robfig/soy/parsepasses"
	"fmt"
	"github.com/robfig/soy/data"
	"os"
	"path/filepath"

	"github.com/robfig/soy"
	"github.com/robfig/soy/soyhtml"
	"regexp"
	"strings"
	"testing"

	"github.com/robfig/soy/errortypes"
	"github.com/robfig/soy/parse"
	"pgregory.net/rapid"

	"verif/harness/ref"
)

// C19: errors point at the offending file and line. Files are built one
// construct per line; a fault is injected at EVERY line (parse side), and a
// failing print / failing call chain is placed at EVERY line (render side).

type C19Case struct {
	Kind   string   `json:"kind"`  // parse | render
	Name   string   `json:"name"`  // file name given to the parser
	Lines  []string `json:"lines"` // valid template body lines (one construct per line)
	Fault  int      `json:"fault"` // parse: fault kind index; render: call depth
	CRLF   bool     `json:"crlf,omitempty"`
	Prefix int      `json:"prefix,omitempty"` // blank/comment lines before the namespace
}

// balanced line constructs: opener, inner lines, closer
var c19Blocks = [][3]string{
	{"{if $a}", "", "{/if}"},
	{"{if $a}", "{else}", "{/if}"},
	{"{foreach $i in [1, 2]}", "{ifempty}", "{/foreach}"},
	{"{for $k in range(2)}", "", "{/for}"},
	{"{switch $a}{case 1}", "{default}", "{/switch}"},
	{"{let $blk}", "", "{/let}{$blk}"},
	{"{msg desc=\"d\"}", "", "{/msg}"},
	{"{call .other}{param p}", "", "{/param}{/call}"},
	{"{log}", "", "{/log}"},
}
var c19Simple = []string{"plain text", "<b>bold</b>", "{$a}", "{$a|noAutoescape}", "{let $v: 1 /}{$v}", "{call .other}{param p: 1 /}{/call}", "{css base}", "{literal}{x}{/literal}", "{sp}{nil}", "text with é and 日本", "{print $a + 1}", "{'string'}", "  indented text", "{$ij.foo}", "// a line comment", "{debugger}"}

func genC19Lines(t *rapid.T) []string {
	var lines []string
	var gen func(depth int)
	gen = func(depth int) {
		for i, n := 0, rapid.IntRange(1, 4).Draw(t, "n"); i < n; i++ {
			if depth < 2 && rapid.IntRange(0, 3).Draw(t, "block") == 0 {
				b := rapid.SampledFrom(c19Blocks).Draw(t, "blk")
				lines = append(lines, b[0])
				inner := depth + 1
				if strings.HasPrefix(b[0], "{msg") {
					lines = append(lines, "message text {$a}")
				} else {
					gen(inner)
				}
				if b[1] != "" {
					lines = append(lines, b[1])
					lines = append(lines, "alternative")
				}
				lines = append(lines, b[2])
			} else {
				lines = append(lines, rapid.SampledFrom(c19Simple).Draw(t, "line"))
			}
		}
	}
	gen(0)
	return lines
}

func (c C19Case) file(body []string) (src string, bodyStart int) { return c.fileUpTo(body, true) }

// fileUpTo with closed=false ends the input right after the last body line: no closing lines, no final line break.
func (c C19Case) fileUpTo(body []string, closed bool) (src string, bodyStart int) {
	nl := "\n"
	if c.CRLF {
		nl = "\r\n"
	}
	var head []string
	for i := 0; i < c.Prefix; i++ {
		head = append(head, []string{"", "// header comment", "/* c */"}[i%3])
	}
	head = append(head, "{namespace ns.c19}", "", "/** @param p", " * @param? q */", "{template .other}", "{$p}{$q ?: ''}", "{/template}", "", "/**", " * @param a", " */", "{template .main}")
	all := append(append([]string{}, head...), body...)
	if closed {
		all = append(all, "{if not $a}{$a}{/if}{/template}", "")
	}
	return strings.Join(all, nl), len(head) + 1 // 1-based line of the first body line
}

var c19Faults = []struct {
	name, line string
	single     bool   // the error must be reported on exactly the fault line
	crit       string // the shortest prefix of the line after which the fault is certain
	at         int    // the fault spans several lines: the offending text is on this line of it (0-based)
}{
	{"double-brace tag closed by a single brace at the end of its line", "{{$a}", true, "{{$a}", 0},
	{"double-brace self-closing tag closed by a single brace", "{{call .other /}", true, "{{call .other /}", 0},
	{"text between {call} and its first {param}, lines after the {call} tag", "{call .other}\n\norphan\n\n{param p: 1 /}{/call}", true, "{call .other}\n\norphan\n\n{", 2},
	{"text between two {param}s", "{call .other}{param p: 1 /}\norphan text\n\n\n{param p: 2 /}{/call}", true, "{call .other}{param p: 1 /}\norphan text\n\n\n{", 1},
	{"illegal character in a tag", "{$a # 1}", true, "{$a #", 0},
	{"stray closing brace in text", "oops } here", true, "oops }", 0},
	{"unknown closing command", "{/foo}", true, "{/foo}", 0},
	{"if without a condition", "{if}", true, "{if}", 0},
	{"unexpected token in expression", "{$a + }", true, "{$a + }", 0},
	{"bad number", "{12abc}", true, "{12abc", 0},
	{"error inside a quoted attribute expression", "{call .other data=\"$a +\" /}", true, "{call .other data=\"$a +\"", 0},
	{"error inside a css expression", "{css $a +, base}", true, "{css $a +,", 0},
	{"error inside a quoted param value", "{call .other}{param key=\"p\" value=\"1 +\" /}{/call}", true, "{call .other}{param key=\"p\" value=\"1 +\"", 0},
	{"unterminated string", "{'never closed}", false, "{'never closed}", 0},
	{"unterminated block comment", "/* never closed", false, "/* never closed", 0},
	{"double-brace css tag closed by a single brace", "{{css a}", true, "{{css a}", 0},
	{"double-brace literal tag closed by a single brace", "{{literal}", true, "{{literal}", 0},
	{"literal tag that is not closed on its line", "{literal", true, "{literal", 0},
	{"text between the cases of a switch, lines before the next case", "{switch 1}#\n\n\n{case 1}a{/switch}", true, "{switch 1}#\n\n\n{", 0},
	{"a string of several lines where none may stand", "{$a 'x\ny\nz'}", true, "{$a 'x\ny\nz'", 0},
	{"plural without a default, lines before its end", "{msg desc=\"d\"}\n{plural 1}\n{case 1}a\n\n\n{/plural}{/msg}", true, "{msg desc=\"d\"}\n{plural 1}\n{case 1}a\n\n\n{/plural}", 1},
	{"plural case that is not a number", "{msg desc=\"d\"}\n{plural 1}\n{case 'a'}a\n\n{default}b{/plural}{/msg}", true, "{msg desc=\"d\"}\n{plural 1}\n{case 'a'}", 2},
	{"unterminated tag", "{if $a", false, "{if $a", 0},
}

var posRe = regexp.MustCompile(`:(\d+):(\d+)`)

func checkParseError(name, src string, faultLine int, single bool, what string) error {
	nLines := strings.Count(src, "\n") + 1
	_, err := parse.SoyFile(name, src)
	if err == nil {
		return fmt.Errorf("%s at line %d: the file parsed without error\n%s", what, faultLine, numbered(src))
	}
	fp := errortypes.ToErrFilePos(err)
	if fp == nil {
		return fmt.Errorf("%s at line %d: the parse error carries no file position: %v", what, faultLine, err)
	}
	if fp.File() != name {
		return fmt.Errorf("%s at line %d: error names file %q, the input was given as %q", what, faultLine, fp.File(), name)
	}
	if fp.Line() < 1 || fp.Line() > nLines {
		return fmt.Errorf("%s at line %d: reported line %d lies outside the input (1..%d): %v\n%s", what, faultLine, fp.Line(), nLines, err, numbered(src))
	}
	if single && fp.Line() != faultLine {
		return fmt.Errorf("%s at line %d: reported at line %d: %v\n%s", what, faultLine, fp.Line(), err, numbered(src))
	}
	if !single && fp.Line() < faultLine {
		return fmt.Errorf("%s opened at line %d: reported before it, at line %d: %v\n%s", what, faultLine, fp.Line(), err, numbered(src))
	}
	want := fmt.Sprintf("%s:%d:%d", name, fp.Line(), fp.Col())
	if !strings.Contains(err.Error(), want) {
		return fmt.Errorf("%s at line %d: message %q does not contain the position %q it carries", what, faultLine, err.Error(), want)
	}
	// the same input compiled as a bundle fails with the same position
	var cerr error
	if pn := catch(func() { _, cerr = soy.NewBundle().AddTemplateString(name, src).Compile() }); pn != nil {
		return fmt.Errorf("%s at line %d: Bundle.Compile panicked: %v", what, faultLine, pn)
	}
	if cerr == nil {
		return fmt.Errorf("%s at line %d: the parser rejects the file (%v) but Bundle.Compile accepts it", what, faultLine, err)
	}
	if cfp := errortypes.ToErrFilePos(cerr); cfp == nil || cfp.File() != fp.File() || cfp.Line() != fp.Line() {
		return fmt.Errorf("%s at line %d: the parser reports %s:%d, Bundle.Compile reports %v", what, faultLine, fp.File(), fp.Line(), cerr)
	}
	return nil
}

func numbered(src string) string {
	var b strings.Builder
	for i, l := range strings.Split(src, "\n") {
		fmt.Fprintf(&b, "%3d| %s\n", i+1, strings.TrimRight(l, "\r"))
	}
	return b.String()
}

// compileFiles writes the sources to the given paths (under dir) and adds them with AddTemplateFile, in order.
func compileFiles(dir string, paths, srcs []string) (c *compiled, err error, panicked interface{}) {
	os.RemoveAll(dir)
	defer os.RemoveAll(dir)
	for i, p := range paths {
		os.MkdirAll(filepath.Dir(p), 0o755)
		if werr := os.WriteFile(p, []byte(srcs[i]), 0o644); werr != nil {
			return nil, nil, fmt.Sprintf("harness: cannot write %s: %v", p, werr)
		}
	}
	panicked = catch(func() {
		b := soy.NewBundle()
		for _, p := range paths {
			b.AddTemplateFile(p)
		}
		reg, e := b.Compile()
		if e != nil {
			err = e
			return
		}
		c = &compiled{soyhtml.NewTofu(reg), reg}
	})
	return
}

// compileRegistry builds the bundle the way applications with their own loading do: parse each file, add
// it to a template.Registry, run the passes. Before the passes, one more file is offered that defines a
// template of the first file again: Add refuses it, and the application carries on with what it had.
func compileRegistry(names, srcs []string) (c *compiled, err error, panicked interface{}) {
	panicked = catch(func() {
		reg := &template.Registry{}
		for i := range names {
			tree, e := parse.SoyFile(names[i], srcs[i])
			if e != nil {
				err = e
				return
			}
			if e := reg.Add(tree); e != nil {
				err = e
				return
			}
		}
		if len(srcs) > 0 {
			if dup, e := parse.SoyFile("late-duplicate.soy", srcs[0]); e == nil {
				if reg.Add(dup) == nil {
					err = fmt.Errorf("a file that defines the templates of %s again was accepted", names[0])
					return
				}
			}
		}
		if e := parsepasses.CheckDataRefs(*reg); e != nil {
			err = e
			return
		}
		parsepasses.ProcessMessages(*reg)
		c = &compiled{soyhtml.NewTofu(reg), reg}
	})
	return
}

var c19rec *recorder

// c19InnerAt: the failing print stands on this line of the current multi-line shape (set with the shape)
var c19InnerAt int

func checkC19(c C19Case) Verdict {
	if c.Kind == "numbered" {
		if err := c19Numbered(); err != nil {
			return bad(true, "%v", err)
		}
		return ok(true, "numbered")
	}
	if c.Kind == "parse" {
		valid, _ := c.file(c.Lines)
		if _, err := parse.SoyFile(c.Name, valid); err != nil {
			return bad(true, "generated valid file rejected: %v\n%s", err, numbered(valid))
		}
		f := c19Faults[c.Fault%len(c19Faults)]
		n := 0
		for at := 0; at <= len(c.Lines); at++ { // the fault is inserted before body line 'at'
			if strings.Contains(f.line, "{msg") {
				// (a message may not stand inside a message)
				open := 0
				for _, l := range c.Lines[:at] {
					open += strings.Count(l, "{msg") - strings.Count(l, "{/msg}")
				}
				if open > 0 {
					continue
				}
			}
			body := append(append(append([]string{}, c.Lines[:at]...), f.line), c.Lines[at:]...)
			src, start := c.file(body)
			if err := checkParseError(c.Name, src, start+at+f.at, f.single, f.name); err != nil {
				return bad(true, "%v", err)
			}
			n++
			// the same fault with the input ending right after the faulty line, and right after the
			// part of it that makes the fault certain (the fault line is then the last line of the input)
			for _, last := range []string{f.line, f.crit} {
				cut, _ := c.fileUpTo(append(append([]string{}, c.Lines[:at]...), last), false)
				// (a string or comment that nothing closes before the input ends is reported where it begins)
				exact := f.single || strings.HasPrefix(f.name, "unterminated string") || strings.HasPrefix(f.name, "unterminated block comment")
				if err := checkParseError(c.Name, cut, start+at+f.at, exact, f.name+" (input ends after "+fmt.Sprintf("%q", last)+")"); err != nil {
					return bad(true, "%v", err)
				}
				n++
			}
		}
		if c19rec != nil {
			c19rec.add("parse_fault_positions", n)
		}
		return ok(len(c.Lines) >= 2, "parse:"+f.name)
	}
	// render side: a failing print at every line, reached through `depth` calls across files
	depth := c.Fault % 4
	n := 0
	for at := 0; at <= len(c.Lines); at++ {
		// positions inside a branch that does not run ({else}, {ifempty}, {default} with this data) are skipped
		dead := false
		var alt []bool
		var loops []string // per open block: the condition that holds in a later iteration only ("" outside loops)
		for i := 0; i < at; i++ {
			for _, b := range c19Blocks {
				switch c.Lines[i] {
				case b[0]:
					alt = append(alt, false)
					switch {
					case strings.HasPrefix(b[0], "{foreach $i"):
						loops = append(loops, "$i == 2")
					case strings.HasPrefix(b[0], "{for $k"):
						loops = append(loops, "$k == 1")
					case strings.HasPrefix(b[0], "{msg"):
						loops = append(loops, "msg")
					default:
						loops = append(loops, "")
					}
				case b[2]:
					if len(alt) > 0 {
						alt = alt[:len(alt)-1]
						loops = loops[:len(loops)-1]
					}
				}
				if b[1] != "" && c.Lines[i] == b[1] && len(alt) > 0 {
					alt[len(alt)-1] = true
				}
				if c.Lines[i] == b[0] || c.Lines[i] == b[2] {
					break
				}
			}
		}
		for _, a := range alt {
			dead = dead || a
		}
		if dead {
			continue
		}
		failing := []string{"{$a.nokey.deeper}"}
		if depth > 0 {
			failing = []string{"{call ns.d1.t /}"}
			if (c.Fault/4)%2 == 1 {
				// a call whose params sit on the following lines: the failure is still reported at the {call} line
				failing = []string{"{call ns.d1.t}", "{param x: $a /}", "{param y}", "content {$a}", "{/param}", "{/call}"}
			}
		}
		// inside a loop the print fails in a later iteration only (the interpreter has been past this line,
		// and past the lines after it, before)
		laterIteration := ""
		for _, l := range loops {
			if l != "" {
				laterIteration = l
			}
		}
		inMsg := false
		for _, l := range loops {
			inMsg = inMsg || l == "msg"
		}
		if laterIteration == "msg" {
			laterIteration = "" // (no commands but print and call inside a message)
		}
		if depth == 0 && laterIteration != "" && (c.Fault/4)%2 == 1 { // (that bit means something else at depth > 0)
			failing = []string{"{" + laterIteration + " ? $a.nokey.deeper : 'fine'}"}
		}
		if depth == 0 && laterIteration == "" && at%3 == 2 {
			// a command written over several lines: the failing part of its expression stands lines below
			// the command
			switch (c.Fault / 4) % 4 {
			case 0:
				failing = []string{"{$a +", "", "  $a.nokey.deeper}"}
			case 1:
				failing = []string{"{if $a", "  and $a.nokey.deeper}x{/if}"}
			case 2:
				failing = []string{"{let $zzw:", "", " [1,", "  $a.nokey.deeper] /}{$zzw}"}
			case 3:
				// the command begins with a string literal that runs over three lines
				failing = []string{"{'one", "two", "three' + $a.nokey.deeper}"}
			}
			if inMsgNow := func() bool {
				for _, l := range loops {
					if l == "msg" {
						return true
					}
				}
				return false
			}(); inMsgNow && (c.Fault/4)%4 != 0 {
				failing = []string{"{$a +", "", "  $a.nokey.deeper}"}
			}
		}
		if depth > 0 && laterIteration != "" && (c.Fault/4)%2 == 0 {
			failing = []string{"{if " + laterIteration + "}{call ns.d1.t /}{/if}"}
		}
		// a fourth shape: an obligatory print directive (an application setting) rejects one value
		strict := c.Fault >= 32
		if strict {
			depth = 0
			failing = []string{"{'boom'}"}
		}
		// a third shape: the call itself fails while it evaluates a param value (after a content param)
		alsoOK := -1
		if (c.Fault/16)%2 == 1 && !strict {
			if depth > 0 {
				failing = []string{"{call ns.d1.t}", "{param y}", "content {$a}", "{/param}", "{param x: $a.nokey.deeper /}", "{/call}"}
				alsoOK = 4
			} else {
				failing = []string{"{call .other}", "{param p: $a.nokey.deeper /}", "{/call}"}
				alsoOK = 1
				// the failing expression inside a quoted attribute, which the parser handles apart
				switch at % 4 {
				case 1:
					failing, alsoOK = []string{"{call .other data=\"['p': $a.nokey.deeper]\" /}"}, -1
					if (c.Fault/8)%2 == 1 {
						// bytes that are not valid UTF-8 in front of the failing reference (however the
						// attribute's text is decoded, the error belongs to this line of this file)
						failing = []string{"{call .other data=\"['p': '" + strings.Repeat("\xff\xfe", 40) + "' + $a.nokey.deeper]\" /}"}
					}
				case 2:
					failing = []string{"{call .other}", "{param key=\"p\" value=\"$a.nokey.deeper\" /}", "{/call}"}
				case 3:
					if !inMsg {
						failing, alsoOK = []string{"{css $a.nokey.deeper, name}"}, -1
					}
				case 0:
					// the failure inside the content of a param that follows a value param: the print's line, or
					// the line of a tag that encloses it - not the line of the param before, which did not fail
					if !inMsg && (c.Fault/8)%2 == 1 {
						failing = []string{"{call .other}", "{param p: 1 /}", "{param q}", "content {$a.nokey.deeper}", "{/param}", "{/call}"}
						c19InnerAt = 3
						alsoOK = 2
					}
				}
			}
		}
		body := append(append(append([]string{}, c.Lines[:at]...), failing...), c.Lines[at:]...)
		src, start := c.file(body)
		names, srcs := []string{c.Name}, []string{src}
		for d := 1; d <= depth; d++ {
			// the innermost failure: a type error in an operator, a reference through a missing value, a
			// failing function, a failing directive
			inner := []string{"{1 < 'a'}", "{$x.nokey.deeper}", "{length($y)}", "{$y|truncate:'w'}", "{$x[0][1]}"}[(c.Fault+at)%5]
			if d < depth {
				inner = fmt.Sprintf("{call ns.d%d.t /}", d+1)
			}
			calleeName := fmt.Sprintf("callee%d.soy", d)
			if (c.Fault/8)%2 == 1 {
				calleeName = c.Name // several files may share a name (it is "only used for error messages")
			}
			names = append(names, calleeName)
			srcs = append(srcs, fmt.Sprintf("{namespace ns.d%d}\n\n\n/**\n * @param? x\n * @param? y */\n{template .t}\n{if $x}x{/if}{if $y}y{/if}\n%s\n{/template}\n", d, inner))
		}
		// for part of the cases the files are real files added by path: the path is the file name of the error
		wantFile := c.Name
		distinct := true
		for i := range names {
			for j := range names[:i] {
				distinct = distinct && names[i] != names[j]
			}
		}
		var (
			cb  *compiled
			err error
			pn  interface{}
		)
		if distinct && hashCase(c)%2 == 0 {
			dir := filepath.Join(outDir(), "c19-files-"+shard())
			paths := make([]string, len(names))
			for i := range names {
				paths[i] = filepath.Join(dir, strings.TrimPrefix(names[i], "/"))
			}
			wantFile = paths[0]
			cb, err, pn = compileFiles(dir, paths, srcs)
		} else if distinct && hashCase(c)%5 == 1 {
			cb, err, pn = compileRegistry(names, srcs)
		} else {
			cb, err, pn = compileBundle(names, srcs, nil)
		}
		if err != nil || pn != nil {
			return bad(true, "bundle rejected: %v %v\n%s", err, pn, numbered(src))
		}
		if strict {
			soyhtml.PrintDirectives["verifStrict"] = soyhtml.PrintDirective{Apply: func(v data.Value, _ []data.Value) data.Value {
				if s, isStr := v.(data.String); isStr && s == "boom" {
					panic("verifStrict: this value may not be printed")
				}
				return v
			}, ValidArgLengths: []int{0}}
			soyhtml.ObligatoryPrintDirectiveNames = []string{"verifStrict"}
		}
		rr := cb.render("ns.c19.main", map[string]ref.Value{"a": ref.I(1)}, map[string]ref.Value{"foo": ref.S("f")}, true)
		if strict {
			soyhtml.ObligatoryPrintDirectiveNames = nil
			delete(soyhtml.PrintDirectives, "verifStrict")
		}
		if rr.panicked != nil {
			return bad(true, "render panicked: %v", rr.panicked)
		}
		if rr.err == nil {
			return bad(true, "render of a failing template returned no error\n%s", numbered(src))
		}
		fp := errortypes.ToErrFilePos(rr.err)
		if fp == nil {
			return bad(true, "render error carries no file position: %v", rr.err)
		}
		if fp.File() != wantFile {
			return bad(true, "render error names file %q; the entry template is defined in %q (failure %d calls deep)\n%v", fp.File(), wantFile, depth, trunc(rr.err.Error(), 300))
		}
		// the failing command's line, or the line of a block command that encloses it
		wantLine := start + at
		okLine := fp.Line() == wantLine || alsoOK >= 0 && fp.Line() == wantLine+alsoOK // (the {call} line, or the line of the param whose value failed)
		if c19InnerAt > 0 {
			okLine = okLine || fp.Line() == wantLine+c19InnerAt
			c19InnerAt = 0
		}
		if !okLine {
			// enclosing block openers among the preceding body lines
			open := []int{}
			for i := 0; i < at; i++ {
				l := c.Lines[i]
				for _, b := range c19Blocks {
					if l == b[0] {
						open = append(open, start+i)
					}
					if l == b[2] && len(open) > 0 {
						open = open[:len(open)-1]
					}
				}
			}
			for _, o := range open {
				if fp.Line() == o {
					okLine = true
				}
			}
		}
		if !okLine {
			return bad(true, "render error (failure %d calls deep) reported at line %d; the failing command of the entry template is on line %d\n%v\n%s", depth, fp.Line(), wantLine, trunc(rr.err.Error(), 300), numbered(src))
		}
		n++
	}
	// the watch tier (c19_watch.go): a few cases per process
	if hashCase(c)%3 == 0 && os.Getenv("VERIF_C19_NOWATCH") == "" {
		var plain []string
		for _, l := range c.Lines {
			if !strings.ContainsAny(l, "{}") {
				plain = append(plain, l)
			}
		}
		werr, why := c19Watch(plain, 7+len(c.Lines)*5)
		if werr != nil {
			return bad(true, "%v", werr)
		}
		if c19rec != nil && why != "n/a" {
			if why == "" {
				c19rec.add("watch_tier_runs", 1)
			} else {
				c19rec.add("watch_tier_inconclusive", 1)
			}
		}
	}
	if c19rec != nil {
		c19rec.add("render_fault_positions", n)
	}
	return ok(len(c.Lines) >= 2, fmt.Sprintf("render:depth%d", depth))
}

func genC19(t *rapid.T) C19Case {
	return C19Case{
		Kind:   rapid.SampledFrom([]string{"parse", "parse", "render"}).Draw(t, "kind"),
		Name:   rapid.SampledFrom([]string{"main.soy", "dir/sub/file.soy", "my file.soy", "x", "/abs/path/t.soy", "100%.soy", "f%20d.soy", "%s%d%v.soy"}).Draw(t, "name"),
		Lines:  genC19Lines(t),
		Fault:  rapid.IntRange(0, 39).Draw(t, "fault"),
		CRLF:   rapid.IntRange(0, 4).Draw(t, "crlf") == 0,
		Prefix: rapid.IntRange(0, 3).Draw(t, "prefix"),
	}
}

func TestC19(t *testing.T) {
	c19rec = newRecorder("C19x")
	defer c19rec.flush()
	if shard() == "0" && os.Getenv("VERIF_REPLAY") == "" && os.Getenv("VERIF_CORPUS_ONLY") == "" {
		if err := c19Numbered(); err != nil {
			c := C19Case{Kind: "numbered"}
			writeFail("C19", c, err)
			t.Fatalf("numbered tier: %v", err)
		}
	}
	runProp(t, "C19", genC19, checkC19)
}
