package props

import (
	"github.com/robfig/soy/data"

	"verif/harness/ref"
)

// toData converts a reference value into the implementation's value type.
func toData(v ref.Value) data.Value {
	switch v.K {
	case ref.Undefined:
		return data.Undefined{}
	case ref.Null:
		return data.Null{}
	case ref.Bool:
		return data.Bool(v.B)
	case ref.Int:
		return data.Int(v.I)
	case ref.Float:
		return data.Float(v.F)
	case ref.String:
		return data.String(v.S)
	case ref.List:
		l := make(data.List, len(v.L))
		for i, it := range v.L {
			l[i] = toData(it)
		}
		return l
	case ref.Map:
		m := make(data.Map, len(v.M))
		for k, it := range v.M {
			m[k] = toData(it)
		}
		return m
	}
	panic("unreachable")
}

func toDataMap(m map[string]ref.Value) data.Map {
	if m == nil {
		return nil
	}
	return toData(ref.M(m)).(data.Map)
}

// fromData converts back; ok=false for anything that is not one of the eight
// value types (or a nil interface).
func fromData(v data.Value) (ref.Value, bool) {
	switch v := v.(type) {
	case data.Undefined:
		return ref.U(), true
	case data.Null:
		return ref.N(), true
	case data.Bool:
		return ref.B(bool(v)), true
	case data.Int:
		return ref.I(int64(v)), true
	case data.Float:
		return ref.F(float64(v)), true
	case data.String:
		return ref.S(string(v)), true
	case data.List:
		l := make([]ref.Value, len(v))
		for i, it := range v {
			x, ok := fromData(it)
			if !ok {
				return ref.Value{}, false
			}
			l[i] = x
		}
		return ref.L(l...), true
	case data.Map:
		m := make(map[string]ref.Value, len(v))
		for k, it := range v {
			x, ok := fromData(it)
			if !ok {
				return ref.Value{}, false
			}
			m[k] = x
		}
		return ref.M(m), true
	}
	return ref.Value{}, false
}

// toJSON converts a reference value to what encoding/json should send to node.
func toJSON(v ref.Value) interface{} {
	switch v.K {
	case ref.Null, ref.Undefined:
		return nil
	case ref.Bool:
		return v.B
	case ref.Int:
		return v.I
	case ref.Float:
		return v.F
	case ref.String:
		return v.S
	case ref.List:
		out := make([]interface{}, len(v.L))
		for i, it := range v.L {
			out[i] = toJSON(it)
		}
		return out
	case ref.Map:
		return toJSONMap(v.M)
	}
	return nil
}

func toJSONMap(m map[string]ref.Value) map[string]interface{} {
	out := map[string]interface{}{}
	for k, v := range m {
		out[k] = toJSON(v)
	}
	return out
}
