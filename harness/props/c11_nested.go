package props

import (
	"bytes"
	"fmt"

	"github.com/robfig/soy/ast"
	"github.com/robfig/soy/soyjs"
	"github.com/robfig/soy/soymsg"

	"verif/harness/gen"
	"verif/harness/ref"
)

// The nested tier of C11: a message may hold a {call} whose {param} content holds another message. Both
// are messages of the catalogue, each with placeholder names of its own - the same name may stand for one
// expression outside and for another inside. No model of the extraction is needed for the clause that
// is checked here: under the identity translation of every message of the bundle (the translation is the
// message's own placeholder string) both back ends render what they render without a catalogue.

// C11Nest: indices into c11NestParts for the outer and the inner message(s); a call part of the outer
// message takes the next inner message as the content of its param.
type C11Nest struct {
	Outer  []int   `json:"outer"`
	Inners [][]int `json:"inners"`
}

const c11CallPart = 11

func c11NestPart(i int) ref.Cmd {
	key := func(v, k string) *ref.Expr {
		return &ref.Expr{Op: "ref", Name: v, Access: []ref.Access{{Kind: "key", Key: k}}}
	}
	switch i % 11 {
	case 0:
		return txt("Hello ")
	case 1:
		return txt(" and ")
	case 2:
		return ref.Cmd{K: "print", Expr: varE("x")}
	case 3:
		return ref.Cmd{K: "print", Expr: key("a", "x")}
	case 4:
		return ref.Cmd{K: "print", Expr: key("b", "x")}
	case 5:
		return ref.Cmd{K: "print", Expr: varE("name")}
	case 6:
		return ref.Cmd{K: "print", Expr: key("user", "name")}
	case 7:
		return txt("<b>bold</b>")
	case 8:
		return txt("<a href=\"u\">here</a>")
	case 9:
		return txt("<a href=\"other\">there</a>")
	}
	return ref.Cmd{K: "print", Expr: &ref.Expr{Op: "+", Args: []*ref.Expr{intE(1), intE(i % 7)}}}
}

func c11NestProgram(n *C11Nest) *ref.Program {
	str := func(s string) *ref.Expr { return &ref.Expr{Op: "str", S: s} }
	mp := func(k, v string) *ref.Expr { return &ref.Expr{Op: "map", Keys: []string{k}, Args: []*ref.Expr{str(v)}} }
	next := 0
	var build func(parts []int, desc string, depth int) ref.Cmd
	build = func(parts []int, desc string, depth int) ref.Cmd {
		m := ref.Cmd{K: "msg", Desc: desc}
		for _, p := range parts {
			if p == c11CallPart && next < len(n.Inners) && depth < 3 {
				inner := n.Inners[next]
				next++
				m.Body = append(m.Body, ref.Cmd{K: "call", Call: &ref.Call{Target: "m.quote", Params: []ref.Param{{Key: "content", IsBlock: true,
					Content: []ref.Cmd{txt("("), build(inner, fmt.Sprintf("inner %d", next), depth+1), txt(")")}}}}})
				continue
			}
			m.Body = append(m.Body, c11NestPart(p))
		}
		if len(m.Body) == 0 {
			m.Body = []ref.Cmd{txt("empty")}
		}
		return m
	}
	outer := build(n.Outer, "outer", 0)
	body := []ref.Cmd{
		{K: "let", Var: "x", Expr: str("[x]")}, {K: "let", Var: "a", Expr: mp("x", "[a.x]")}, {K: "let", Var: "b", Expr: mp("x", "[b.x]")},
		{K: "let", Var: "name", Expr: str("[name]")}, {K: "let", Var: "user", Expr: mp("name", "[user.name]")},
		outer,
	}
	for _, v := range []string{"x", "a", "b", "name", "user"} {
		body = append(body, ref.Cmd{K: "if", Branches: []ref.Branch{{Cond: &ref.Expr{Op: "bool", B: false}, Body: []ref.Cmd{printVar(v)}}}})
	}
	raw := []ref.Directive{{Name: "noAutoescape"}}
	return &ref.Program{Globals: gen.MsgGlobals, Files: []ref.File{{Name: "m.soy", Namespace: "m", Templates: []ref.Template{{Name: "t", Body: body},
		{Name: "quote", Params: []ref.ParamDecl{{Name: "content"}}, Body: []ref.Cmd{txt("<q>"), {K: "print", Expr: varE("content"), Directives: raw}, txt("</q>")}}}}}}
}

func checkC11Nested(n *C11Nest) Verdict {
	prog := c11NestProgram(n)
	names, srcs := gen.Sources(prog)
	src := showSources(names, srcs)
	want := ref.Render(prog, "m.t", nil, nil, false)
	if want.Status != ref.OK {
		return excluded("harness: the nested bundle does not render in the reference")
	}
	cb, cerr, pn := compileBundle(names, srcs, prog.Globals)
	if cerr != nil || pn != nil {
		return bad(true, "a message with a message inside the param content of a call does not compile: %v %v\n%s", cerr, pn, src)
	}
	// the identity translation of every message of the bundle, nested ones included
	identity := &mapBundle{msgs: map[uint64]*soymsg.Message{}}
	nmsgs := 0
	strs := map[uint64]string{}
	clash := false
	for _, t := range cb.reg.Templates {
		collectMsgs(t.Node, func(m *ast.MsgNode) {
			nmsgs++
			ps := soymsg.PlaceholderString(m)
			if prev, seen := strs[m.ID]; seen && prev != ps {
				clash = true
			}
			strs[m.ID] = ps
			identity.msgs[m.ID] = soymsg.NewMessage(m.ID, ps)
		})
	}
	if clash {
		// (the official algorithm fingerprints placeholder names without their braces: "{X}{XXX}" and
		// "{XXX}{X}" are one id, and a catalogue holds one translation per id)
		return excluded("two different messages of the bundle have one id under the official algorithm")
	}
	plain := cb.render("m.t", nil, nil, false)
	if plain.err != nil || plain.panicked != nil || ref.CanonRefs(plain.out) != ref.CanonRefs(want.Out) {
		return bad(true, "without a catalogue the bundle renders %q (error %v %v); the language defines %q\n%s", plain.out, plain.err, plain.panicked, want.Out, src)
	}
	var buf bytes.Buffer
	var rerr error
	if p := catch(func() { rerr = cb.tofu.NewRenderer("m.t").WithMessages(identity).Execute(&buf, nil) }); p != nil || rerr != nil {
		return bad(true, "render with the identity catalogue failed: %v %v\n%s", p, rerr, src)
	}
	if buf.String() != plain.out {
		return bad(true, "the identity translation (of %d messages, some inside the param content of a call inside a message) does not render what rendering without a catalogue does\n with    %q\n without %q\n%s", nmsgs, buf.String(), plain.out, src)
	}
	for _, withCatalogue := range []bool{false, true} {
		opts := soyjs.Options{}
		if withCatalogue {
			opts.Messages = identity
		}
		files, jerr := jsSources(cb, opts, false)
		if jerr != nil {
			return bad(true, "%v\n%s", jerr, src)
		}
		resp, err := theNode.do(jsRequest{Files: files, Plural: "one-other", Calls: []jsCall{{Name: "m.t", Data: map[string]interface{}{}}}})
		if err != nil {
			return excluded("infra: " + err.Error())
		}
		if resp.Load[0] != nil {
			return bad(true, "generated JavaScript (identity catalogue: %v) does not load: %s\n%s", withCatalogue, *resp.Load[0], files[0].Src)
		}
		if r := resp.Results[0]; !r.OK || r.Out != plain.out {
			return bad(true, "JavaScript (identity catalogue: %v) gives %q (error %q), Go gives %q\n%s\n%s", withCatalogue, r.Out, r.Error, plain.out, src, files[0].Src)
		}
	}
	return ok(nmsgs >= 2, "nested", fmt.Sprintf("nested-msgs:%d", nmsgs))
}
