module verif/harness

go 1.23

require (
	github.com/robfig/soy v0.0.0
	pgregory.net/rapid v1.3.0
)

replace github.com/robfig/soy => /repo
