// JSON-lines worker executing generated JavaScript for the Go harness.
//
//   node --experimental-vm-modules worker.js <path to soyutils.js>
//
// One request per line on stdin, one response per line on stdout.
//
// request  {id, files:[{name, src, module}], plural:"one-other"|..., calls:[{name, data, ij}], typeofs:[name], evals:[expr]}
// response {id, load:[null | "SyntaxError: ..."], results:[{ok, out} | {ok:false, error}], typeofs:[...], evals:[{ok,value}|{ok:false,error}]}
//
// Every request gets a fresh vm context with soyutils.js loaded, so no state
// leaks between cases.
'use strict';
const vm = require('vm');
const fs = require('fs');
const readline = require('readline');

const soyutilsPath = process.argv[2];
const soyutils = new vm.Script(fs.readFileSync(soyutilsPath, 'utf8'), {filename: 'soyutils.js'});

// plural rules: index of the msgstr form for n, as gettext defines them
const pluralRules = {
  'one-other': 'return n == 1 ? 0 : 1;',                                             // en
  'only-other': 'return 0;',                                                         // ja
  'one-few-other': 'return (n == 1) ? 0 : (n >= 2 && n <= 4) ? 1 : 2;',             // cs
};

function freshContext(plural) {
  const ctx = vm.createContext({console: {log() {}, error() {}, warn() {}}});
  soyutils.runInContext(ctx);
  if (plural) {
    vm.runInContext('soy.$$pluralIndex = function(n) {' + (pluralRules[plural] || plural) + '};', ctx);
  }
  return ctx;
}

function describe(e) {
  if (e && e.name) return e.name + ': ' + e.message;
  return String(e);
}

function handle(req) {
  const res = {id: req.id, load: [], results: [], typeofs: [], evals: []};
  const ctx = freshContext(req.plural);
  for (const f of req.files || []) {
    try {
      if (f.module) {
        // ES6 output: parse as a module (syntax only; imports are not linked)
        new vm.SourceTextModule(f.src, {context: ctx, identifier: f.name});
      } else {
        new vm.Script(f.src, {filename: f.name}).runInContext(ctx, {timeout: 5000});
      }
      res.load.push(null);
    } catch (e) {
      res.load.push(describe(e));
    }
  }
  for (const name of req.typeofs || []) {
    try {
      res.typeofs.push(vm.runInContext('typeof ' + name, ctx, {timeout: 1000}));
    } catch (e) {
      res.typeofs.push('error: ' + describe(e));
    }
  }
  for (const c of req.calls || []) {
    try {
      ctx.__data = c.data === undefined ? null : c.data;
      ctx.__ij = c.ij === undefined ? null : c.ij;
      // data crosses the realm boundary as JSON so that arrays and objects are native to the context
      const out = vm.runInContext(
          '(function(){ var __verif_d = JSON.parse(' + JSON.stringify(JSON.stringify(ctx.__data)) + ');' +
          ' var __verif_ij = JSON.parse(' + JSON.stringify(JSON.stringify(ctx.__ij)) + ');' +
          ' return ' + c.name + '(__verif_d, null, __verif_ij); })()', ctx, {timeout: 5000});
      res.results.push({ok: true, out: String(out), type: typeof out});
    } catch (e) {
      res.results.push({ok: false, error: describe(e)});
    }
  }
  for (const ex of req.evals || []) {
    try {
      const v = vm.runInContext(ex, ctx, {timeout: 5000});
      res.evals.push({ok: true, value: v === undefined ? null : v});
    } catch (e) {
      res.evals.push({ok: false, error: describe(e)});
    }
  }
  return res;
}

const rl = readline.createInterface({input: process.stdin, terminal: false});
rl.on('line', (line) => {
  if (!line.trim()) return;
  let req;
  try {
    req = JSON.parse(line);
  } catch (e) {
    process.stdout.write(JSON.stringify({id: -1, fatal: 'bad request: ' + describe(e)}) + '\n');
    return;
  }
  let res;
  try {
    res = handle(req);
  } catch (e) {
    res = {id: req.id, fatal: describe(e)};
  }
  process.stdout.write(JSON.stringify(res) + '\n');
});
rl.on('close', () => process.exit(0));
