#!/usr/bin/env python3
"""Verify a seeded change produced by a sub-agent and run the checks against it.

  tools/try_mutant.py <mutant dir with patch.diff, zz_mutant_demo_test.go, README.md> <seeded id> <property> [more properties]

1. in a scratch worktree of /repo: the patch applies, the library builds, the unedited suite passes,
   the demonstration fails with the patch and passes without it;
2. the patch is applied to /repo's working tree, each named property's quick check is run, the tree is restored;
3. everything is recorded under /verif/seeded/<id>/ (patch.diff, demo, README.md, meta.json)."""
import json, os, re, shutil, subprocess, sys
ROOT = os.path.dirname(os.path.dirname(os.path.abspath(__file__)))
ENV = dict(os.environ, GOFLAGS="-mod=mod", GOPROXY="off", GOSUMDB="off", GOTOOLCHAIN="local")

def sh(cmd, cwd, timeout=900):
    p = subprocess.run(cmd, shell=True, cwd=cwd, env=ENV, capture_output=True, text=True, errors="replace", timeout=timeout)
    return p.returncode, (p.stdout + p.stderr)

src, sid, props = sys.argv[1], sys.argv[2], sys.argv[3:]
patch = os.path.join(src, "patch.diff")
demo = os.path.join(src, "zz_mutant_demo_test.go")
first = open(demo).readline()
m = re.search(r"package dir:\s*(\S+)", first)
pkgdir = m.group(1).strip() if m else "."
if pkgdir in ("<root>", "root", "/"):
    pkgdir = "."
wt = "/tmp/wt/verify-" + sid
subprocess.run(["git", "-C", "/repo", "worktree", "remove", "--force", wt], capture_output=True)
subprocess.run(["git", "-C", "/repo", "worktree", "add", "-q", "--detach", wt, "HEAD"], check=True)
meta = {"id": sid, "properties": props, "origin": "independent sub-agent given only the property text and a scratch worktree"}
try:
    rc, out = sh("git apply %s" % patch, wt)
    meta["patch_applies"] = rc == 0
    if rc != 0:
        meta["note"] = out[-500:]
        raise SystemExit
    rc, out = sh("go build ./... && go vet ./... >/dev/null 2>&1; go test -vet=off -count=1 ./... 2>&1 | grep -v '^ok\\|no test files'", wt)
    meta["suite_passes_with_patch"] = out.strip() == ""
    if out.strip():
        meta["suite_output"] = out[-800:]
    shutil.copy(demo, os.path.join(wt, pkgdir, "zz_mutant_demo_test.go"))
    rc1, out1 = sh("go test -vet=off -count=1 -run 'Mutant|Demo|ZZ|Zz' ./%s 2>&1 | tail -15" % pkgdir, wt)
    race = "-race" if "C09" in props else ""
    rc1, out1 = sh("go test %s -vet=off -count=1 ./%s 2>&1 | tail -25" % (race, pkgdir), wt)
    meta["demo_fails_with_patch"] = "FAIL" in out1 or "DATA RACE" in out1
    sh("git apply -R %s" % patch, wt)
    rc2, out2 = sh("go test %s -vet=off -count=1 ./%s 2>&1 | tail -15" % (race, pkgdir), wt)
    meta["demo_passes_without_patch"] = "FAIL" not in out2 and "DATA RACE" not in out2
    meta["demo_output_with_patch"] = out1[-700:]
finally:
    subprocess.run(["git", "-C", "/repo", "worktree", "remove", "--force", wt], capture_output=True)
ok = meta.get("patch_applies") and meta.get("suite_passes_with_patch") and meta.get("demo_fails_with_patch") and meta.get("demo_passes_without_patch")
meta["confirmed"] = bool(ok)
meta["checks"] = {}
if ok:
    assert subprocess.run(["git", "-C", "/repo", "status", "--porcelain"], capture_output=True, text=True, errors="replace").stdout.strip() == "", "/repo is not clean"
    subprocess.run(["git", "-C", "/repo", "apply", patch], check=True)
    try:
        for prop in props:
            r = subprocess.run([os.path.join(ROOT, "check"), prop], capture_output=True, text=True, errors="replace", cwd=ROOT)
            caught = r.returncode == 1 and ("VIOLATION property=" + prop) in r.stdout
            meta["checks"][prop] = {"exit": r.returncode, "caught": caught, "tail": r.stdout[-700:]}
            print(sid, prop, "CAUGHT" if caught else "MISSED (exit %d)" % r.returncode, flush=True)
    finally:
        subprocess.run(["git", "-C", "/repo", "checkout", "--", "."], check=True)
else:
    print(sid, "NOT CONFIRMED:", {k: v for k, v in meta.items() if k.endswith(("patch", "applies"))}, flush=True)
d = os.path.join(ROOT, "seeded", sid)
os.makedirs(d, exist_ok=True)
shutil.copy(patch, os.path.join(d, "patch.diff"))
shutil.copy(demo, os.path.join(d, "zz_mutant_demo_test.go"))
if os.path.exists(os.path.join(src, "README.md")):
    shutil.copy(os.path.join(src, "README.md"), os.path.join(d, "README.md"))
json.dump(meta, open(os.path.join(d, "meta.json"), "w"), indent=1)
