#!/usr/bin/env python3
"""Sensitivity sweep: re-introduce each repaired defect (reverse-apply its fix: commit to /repo's working
tree), run the property's quick check, expect a VIOLATION, keep the shrunk replay as a corpus regression
file, restore the tree. Never commits anything in /repo."""
import json, os, re, shutil, subprocess, sys
ROOT = os.path.dirname(os.path.dirname(os.path.abspath(__file__)))
PLAN = """
ef95a43 C16
4812127 C16
45ed446 C15
b66deba C14
586f056 C04
616b62c C04
0c95a31 C04
69ddcad C04
6cb1ad4 C04
778c1b7 C04
580803b C14
ae135df C04
747a985 C19
09b699f C17
ef1f506 C15
38012a4 C15
a385e58 C13 C10
51d44d2 C13
5f1b7ee C08 C09
fb89acc C07
2a67fae C06
2429ae7 C06
66ade40 C06
b8f393a C16 C03
3758b86 C18
b6bf14f C05
a900705 C05
d5d26a0 C05
47335e2 C05
d5cd3e2 C12
a7149c0 C03
3af6cae C02
9ac887f C01
f6f0433 C03 C16
d0a3d16 C01
b42f042 C01
bac3d68 C01
370da60 C01
c133ce2 C01
7dbc6cb C01
506aa7e C01
d64a079 C01
41a8da4 C20
fc31c38 C20
4c894bf C20
"""
only = sys.argv[1:]
results = []
for line in PLAN.strip().splitlines():
    commit, *props = line.split()
    if only and commit not in only:
        continue
    subprocess.run(["git", "-C", "/repo", "checkout", "--", "."], check=True)
    patch = subprocess.run(["git", "-C", "/repo", "show", commit], capture_output=True, text=True, errors="replace").stdout
    subj = subprocess.run(["git", "-C", "/repo", "log", "-1", "--format=%s", commit], capture_output=True, text=True, errors="replace").stdout.strip()
    p = subprocess.run(["git", "-C", "/repo", "apply", "-R", "--3way"], input=patch, capture_output=True, text=True, errors="replace")
    if p.returncode != 0:
        p = subprocess.run(["git", "-C", "/repo", "apply", "-R"], input=patch, capture_output=True, text=True, errors="replace")
    if p.returncode != 0:
        results.append((commit, props, "REVERT-FAILED", subj))
        print(commit, "cannot reverse-apply:", p.stderr[:200], flush=True)
        subprocess.run(["git", "-C", "/repo", "checkout", "--", "."]); subprocess.run(["git", "-C", "/repo", "reset", "-q"])
        continue
    subprocess.run(["git", "-C", "/repo", "reset", "-q"])
    for prop in props:
        r = subprocess.run([os.path.join(ROOT, "check"), prop], capture_output=True, text=True, errors="replace", cwd=ROOT)
        m = re.search(r"VIOLATION property=%s replay=(\S+)" % prop, r.stdout)
        status = "CAUGHT" if (r.returncode == 1 and m) else "MISSED(exit %d)" % r.returncode
        if m:
            d = os.path.join(ROOT, "corpus", prop)
            os.makedirs(d, exist_ok=True)
            shutil.copy(m.group(1), os.path.join(d, "fix-%s.json" % commit))
        results.append((commit, prop, status, subj))
        print(commit, prop, status, "|", subj[:90], flush=True)
        if status != "CAUGHT":
            print(r.stdout[-600:], flush=True)
    subprocess.run(["git", "-C", "/repo", "checkout", "--", "."], check=True)
json.dump(results, open(os.path.join(ROOT, ".build", "revert_sweep.json"), "w"), indent=1)
