#!/usr/bin/env python3
"""Write the prompts of one round of independent seeded changes.

usage: mkprompts.py <letter> <round-number>   (e.g. j 10)

For every property: the template (tools/mutant_prompt_template.txt), the text
of the property (properties.jsonl - nothing else of /verif), the one-line
descriptions of the earlier attempts (DESIGN.md rows `| agent-Cxx-N | ... |`)
and an aim that rotates over the properties. The prompt goes to
/tmp/wt/prompt_<ID><letter>.txt and a worktree /tmp/wt/<ID><letter> is created.
"""
import json, os, re, subprocess, sys

letter, rnd = sys.argv[1], int(sys.argv[2])
root = os.path.dirname(os.path.dirname(os.path.abspath(__file__)))
tmpl = open(os.path.join(root, "tools/mutant_prompt_template.txt")).read()
design = open(os.path.join(root, "DESIGN.md")).read()
AIMS = [
    "a defect in how TWO FEATURES INTERACT: each of the two code paths keeps working alone, and only their combination (a construct inside another construct, one option together with another, one entry point after another) goes wrong",
    "a defect at a BOUNDARY of a data type or a size: an empty or one-element collection, the largest or smallest number, a length of exactly some power of two, the first or last element, an absent versus a null value",
    "a defect that a REFACTORING would introduce: moving a computation to another place (earlier, later, into a helper, into a constructor, behind a cache), merging two similar functions into one, replacing a hand-written loop by a library call whose corner cases differ",
]
if rnd % 2 == 1:
    AIMS = [
        "a defect in an ERROR or CLEANUP path: what happens after something has already gone wrong (the second error, the state left behind by a failed call, a deferred function, a partially built result that is reused)",
        "a defect in STATE THAT LIVES ACROSS CALLS: a cache, a pool, a lazily initialised value, a package-level table or registry, an object that callers are allowed to reuse, a default that is read at one time and used at another",
        "a defect in a detail of TEXT or NUMBER REPRESENTATION: bytes versus characters versus UTF-16 units, case folding, a particular escape sequence, a numeric format (exponent, sign, leading zero, precision), a separator that may also occur inside a value",
    ]
if rnd % 3 == 0:
    AIMS = [
        "a defect in a LIMIT, GUARD or SPECIAL CASE that the code already has (a depth or size limit, a nil or empty check, a recover, a cap, a sort that makes output deterministic, a clamp): off by one, applied at the wrong level, reset at the wrong time, skipped on one path",
        "a defect that only shows through an ENTRY POINT or OPTION that is rarely used (a second constructor, a convenience wrapper, a non-default formatter or option value, loading from files instead of strings, a kept object used twice)",
        "a defect in the ORDER in which things happen or are visited: evaluation order of operands or arguments, order of passes, order of items in a collection, first-versus-last wins, the order in which two goroutines or two calls get to shared state",
    ]
if rnd % 4 == 1 and rnd > 12:
    AIMS = [
        "a defect that a PERFORMANCE OPTIMISATION would introduce: a fast path for the common case whose condition is slightly too wide, pre-sizing or reusing a buffer, avoiding a copy, memoising a result under a key that misses one of its inputs, an early exit, batching several writes into one",
        "a defect in a PUBLIC API DETAIL that the library's own callers never exercise: an exported helper or method used directly, the zero value of an exported type, a nil or empty argument, calling two exported functions in an unusual but allowed order, an exported field set by the application",
        "a defect that depends on the ENVIRONMENT or on the FORM of the input rather than its content: CRLF line ends, a byte order mark, a missing final newline, file names and directory order, very long lines, the time zone or the current time, GOMAXPROCS, map iteration order",
    ]
if rnd % 4 == 2 and rnd > 12:
    AIMS = [
        "a defect in COPY versus SHARE semantics: a slice or map handed out to, or taken from, the caller without copying; sub-slices that share a backing array so that an append overwrites a neighbour; a struct copied by value that holds a pointer or a map; a method with a value receiver that modifies a copy; a node of the parsed tree shared between two parents",
        "a defect in DEFAULTS and ZERO VALUES: an option left unset, a zero count or an empty string treated as 'not given' (or the other way round), a default that differs between two entry points that should agree (Tofu.Render and Renderer.Execute, soyjs.Write and Generator.WriteFile, data.New and data.NewWith, Compile and CompileToTofu), a default applied twice or at the wrong time",
        "a defect in a value that passes through TWO LAYERS or comes BACK as input: escaped twice or not at all where two escapers meet, a value converted twice, the output of one API fed into another (an extracted catalogue loaded back, generated JavaScript evaluated, a printed expression parsed again, an error text taken apart by errortypes), text normalised before and after another step",
    ]
if rnd % 4 == 3 and rnd > 12:
    AIMS = [
        "a defect in a DIAGNOSTIC path itself: an error text that names the wrong thing, a position computed from the wrong string or the wrong node, an error that loses its file position when it is wrapped or annotated, an error value built after the state it describes has moved on, two different failures that produce one and the same text",
        "a defect that needs a SPECIFIC COMBINATION OF NAMES OR STRINGS: two identifiers that collide after a transformation (case folding, trimming a prefix or suffix, joining with a separator, sanitising for JavaScript), a name equal to a keyword, a built-in or a generated helper name, a key or value that contains the separator a later step splits on",
        "a defect in ARITHMETIC on sizes, positions or counts: an off-by-one at a slice bound, an integer overflow or truncation (int, int64, float64), a length in bytes used as a length in characters or UTF-16 units, the modulo or division of a negative number, a rounding in the wrong direction, a loop bound computed once and stale afterwards",
    ]
os.makedirs("/tmp/wt", exist_ok=True)
for line in open(os.path.join(root, "properties.jsonl")):
    p = json.loads(line)
    pid = p["id"]
    a = p["anchors"]
    text = (f"Property {pid}: {p['title']}\n\nStatement: {p['statement']}\n\nQuantified over: {p['quantifier']['text']}\n\n"
            f"Why the existing tests cannot settle it: {p['why_tests_cant']}\n\n"
            f"Code it is anchored in: files {', '.join(a['files'])}; mechanisms: " +
            "; ".join(f"{m['name']} ({m['where']})" for m in a["mechanism"]))
    d = f"/tmp/wt/{pid}{letter}"
    earlier = re.findall(r"^\| agent-%s-\d+ \| (.*?) \|" % pid, design, re.M)
    n = int(pid[1:])
    aim = AIMS[(n + rnd) % len(AIMS)]
    extra = ["ADDITIONAL REQUIREMENTS FOR THIS ATTEMPT:"]
    if earlier:
        extra.append(f"- {len(earlier)} earlier, independent attempts already produced these changes: " +
                     "; ".join(f'({i+1}) "{e}"' for i, e in enumerate(earlier)) +
                     ". Yours must be DIFFERENT from all of them: another clause of the property statement, or the same clause through a completely different mechanism, in another function (preferably another file or package) than any of them.")
    extra.append(f"- This time aim for {aim}. If that aim does not fit this property at all, pick the nearest thing that does.")
    extra.append("- Make it as hard to notice as you can while staying realistic: prefer a violation that needs TWO or THREE things at once. Keep the patch small (at most about 20 changed lines).")
    extra.append("- If, while reading or experimenting, you notice that the ORIGINAL checkout already violates this property for some input (independently of your change), say so at the end of your final answer in a line or two, with the input. Do not build your change on it.")
    extra.append("- Put a stub go.mod (`module mutantdeliverables`) inside MUTANT/ so that `go test ./...` at the repository root does not try to compile the demo copy, and put no other .go file than the demo copy there.")
    out = tmpl.replace("__DIR__", d).replace("__PROPERTY__", text) + "\n" + "\n".join(extra) + "\n"
    open(f"/tmp/wt/prompt_{pid}{letter}.txt", "w").write(out)
    if not os.path.isdir(d):
        subprocess.run(["git", "-C", "/repo", "worktree", "add", "--detach", d, "HEAD"], check=True, capture_output=True)
print("prompts written")
