#!/usr/bin/env python3
"""Write the prompts of one round of independent *hunts*: sub-agents that look for inputs on which the
unchanged library violates a property (only the property text and a scratch worktree are given).

usage: mkhunt.py <letter>
"""
import json, os, re, subprocess, sys
letter = sys.argv[1]
root = os.path.dirname(os.path.dirname(os.path.abspath(__file__)))
design = open(os.path.join(root, "DESIGN.md")).read()
known = json.load(open(os.path.join(root, "known_findings.json")))["findings"]
os.makedirs("/tmp/wt", exist_ok=True)
for line in open(os.path.join(root, "properties.jsonl")):
    p = json.loads(line)
    pid = p["id"]
    a = p["anchors"]
    text = (f"Property {pid}: {p['title']}\n\nStatement: {p['statement']}\n\nQuantified over: {p['quantifier']['text']}\n\n"
            f"Code it is anchored in: files {', '.join(a['files'])}; mechanisms: " +
            "; ".join(f"{m['name']} ({m['where']})" for m in a["mechanism"]))
    d = f"/tmp/wt/{pid}{letter}"
    already = [f["line"] for f in known if f["property"] == pid][-12:]
    out = f"""You are reviewing the Go library robfig/soy (Google Closure "Soy" templates in Go: lexer, parser, AST, data-reference checker, HTML interpreter `soyhtml`, JavaScript generator `soyjs`, i18n message handling `soymsg`).

Your own scratch git worktree of the library is at {d} (a detached checkout; the Go module is github.com/robfig/soy). Work ONLY inside that directory. Do not read or touch /repo or /verif, and do not look for other verification material on this machine.

Every shell command needs this environment (there is no network):
  export GOFLAGS=-mod=mod GOPROXY=off GOSUMDB=off GOTOOLCHAIN=local
The existing test suite is run with:  cd {d} && go test -vet=off -count=1 ./...   (if `go.sum` gets modified by a build, restore it with `git checkout go.sum`; do NOT use `git stash`). `node` (v20) is at /usr/bin/node if you need to run generated JavaScript.

THE PROPERTY the library is meant to satisfy:

{text}

YOUR TASK: find inputs (templates, data, sequences of API calls, concurrent use - whatever the property quantifies over) for which the library AS IT IS in your worktree VIOLATES this property. Do not change the library. Read the anchored code closely, think about what each clause of the statement demands, write small experiments (Go tests, scratch programs, a quick random generator if it helps) and run them. Prefer violations that are clearly inside what the statement quantifies over; for each one say in a sentence why it is inside. Aim for DIFFERENT root causes, not variations of one. Things that were already found and repaired (do not report these again): {'; '.join(already) if already else '(none listed)'}.

DELIVERABLES, inside {d}/HUNT/ (create the directory, with a stub go.mod `module huntdeliverables` so that `go test ./...` at the root ignores it):
  1. findings.md - for every confirmed violation: the minimal input, what the library does, what the property demands, which clause, and the root cause in the code (file:function) if you found it. Also list, briefly, the clauses you probed without finding anything.
  2. zz_hunt_test.go - a copy of a Go test file (first line a comment `// package dir: <relative dir>`) with one test per finding that FAILS on this checkout because of the violation (place the live copy in that package dir and run it to confirm).
If you find nothing after a serious attempt, say so and list what you probed: that is a useful result too. In your final answer, list the findings one per line (input -> observed -> expected), most convincing first.
"""
    open(f"/tmp/wt/hunt_{pid}{letter}.txt", "w").write(out)
    if not os.path.isdir(d):
        subprocess.run(["git", "-C", "/repo", "worktree", "add", "--detach", d, "HEAD"], check=True, capture_output=True)
print("hunt prompts written")
