#!/usr/bin/env python3
"""Rewrites the two tables of DESIGN.md section 9 from /repo's fix: commits and known_findings.json."""
import json, re, subprocess
p='/verif/DESIGN.md'
s=open(p).read()
log = subprocess.run(["git","-C","/repo","log","--reverse","--format=%h %s","eb3e89f..HEAD"],capture_output=True,text=True).stdout.strip().split("\n")
kf = json.load(open('/verif/known_findings.json'))['findings']
byc = {f.get('commit'):f for f in kf}
rows=[]
for l in log:
    h,subj = l.split(' ',1)
    if subj.startswith('fix:'):
        f=byc.get(h,{})
        props = ','.join([f.get('property','?')]+f.get('also',[]))
        rows.append('| %s | %s | %s | %s |' % (h, props, subj[5:].replace('|','\\|'), f.get('witness','(generated search)')))
openrows=['| %s | %s | %s | %s |'%(f['id'],f['property'],f['what'].replace('|','\\|'),f.get('witness','')) for f in kf if f['status']=='open']
def repl(header, newrows, s):
    i = s.index(header)
    j = s.index('\n\n', i)
    head = s[i:j].split('\n')[:2]
    return s[:i] + '\n'.join(head + newrows) + s[j:]
s = repl('| commit | property | what was wrong', rows, s)
s = repl('| id | property | what fails | witness |', openrows, s)
open(p,'w').write(s)
print(len(rows),'fixes',len(openrows),'open')
