#!/usr/bin/env python3
"""Regenerates /verif/MANIFEST.json from checks_table.py and properties.jsonl."""
import json, os, subprocess, sys
ROOT = os.path.dirname(os.path.dirname(os.path.abspath(__file__)))
sys.path.insert(0, ROOT)
from checks_table import CHECKS, NOT_APPLICABLE

props = [json.loads(l) for l in open(os.path.join(ROOT, "properties.jsonl"))]
hooks = subprocess.run(["git", "-C", "/repo", "log", "--format=%h %s", "--grep", "^verif hook"], capture_output=True, text=True).stdout.split("\n")
hook_commits = [h.split()[0] for h in hooks if h.strip()]
checks = []
for p in props:
    pid = p["id"]
    if pid not in CHECKS:
        continue
    c = CHECKS[pid]
    checks.append({
        "property_id": pid,
        "quick_cmd": "./check %s --tier quick" % pid,
        "thorough_cmd": "./check %s --tier thorough" % pid,
        "evidence_file": "/verif/evidence/%s.json" % pid,
        "replay_cmd_template": "./check %s --replay {path}" % pid,
        "engine": c.get("engine", "rapid"),
        "level_claimed": {"category": c["level"], "text": c["level_text"], "design_ref": "DESIGN.md section 4, " + pid},
        "level_note": c["level_note"],
        "technique": c["technique"],
    })
na = [{"property_id": p["id"], "reason": NOT_APPLICABLE.get(p["id"], "check not built yet in this round; see DESIGN.md")}
      for p in props if p["id"] not in CHECKS]
m = {
    "version": 1,
    "setup_cmd": "./check --setup",
    "hooks": {
        "guard": "verif",
        "enable": "go test -c -tags verif (harness module replaces github.com/robfig/soy with /repo)",
        "baseline_off_cmd": "cd /repo && GOFLAGS=-mod=mod GOPROXY=off GOSUMDB=off GOTOOLCHAIN=local go test -vet=off -count=1 ./...",
        "source_commits": hook_commits,
        "add_only": True,
    },
    "engines": [
        {"name": "rapid", "path": "/verif/harness", "serves_properties": sorted(CHECKS), "kind_free_text": "pgregory.net/rapid v1.3.0 property-based tests, sharded by the python driver ./check"},
        {"name": "go-native-fuzz", "path": "/verif/harness/props", "serves_properties": sorted(k for k, v in CHECKS.items() if v.get("fuzz")), "kind_free_text": "go test -fuzz targets with in-target oracles (thorough tier only)"},
        {"name": "node", "path": "/verif/js/worker.js", "serves_properties": sorted(k for k, v in CHECKS.items() if v.get("needs_node")), "kind_free_text": "node v20 executes generated JavaScript for the differential / translation-validation checks"},
    ],
    "checks": checks,
    "not_applicable": na,
    "notes": "All checks are generated-input searches against explicit oracles; see DESIGN.md. Exit 2 means inconclusive (build/infra), never a violation.",
}
json.dump(m, open(os.path.join(ROOT, "MANIFEST.json"), "w"), indent=1)
print("claimed:", len(checks), "not_applicable:", len(na))
