#!/bin/bash
# run every claimed check (quick tier unless $1=thorough) and summarise
tier=${1:-quick}
cd "$(dirname "$0")/.."
fail=0
for p in $(python3 -c "import sys; sys.path.insert(0,'.'); from checks_table import CHECKS; print(' '.join(sorted(CHECKS)))"); do
  out=$(./check $p --tier $tier 2>&1); rc=$?
  echo "$p rc=$rc $(echo "$out" | grep -a '^OK\|^VIOLATION\|^INFRA\|^INCONCLUSIVE' | head -2 | cut -c1-160)"
  [ $rc -ne 0 ] && fail=1
done
exit $fail
