"""Per-property configuration of the driver: which Go test decides the property,
how the quick and thorough tiers are sized, and the text that goes into the evidence."""

PBT = "generated-input search with pgregory.net/rapid: held on every generated case, no proof of absence; "

CHECKS = {
    "C01": {
        "test": "TestC01", "level": "exploration", "crashy": True,
        "quick": {"shards": 8, "checks": 8000, "timeout": 900},
        "thorough": {"shards": 16, "checks": 40000, "timeout": 3400},
        "rule": "small bundles whose commands place generated, well-typed expression trees (all operators, literal forms, data-reference "
                "forms, $ij, globals, functions; minimal or redundant parentheses; tight or spaced operators) in the syntactic positions that "
                "take an expression, plus deliberately valueless prints; distinct by hash of the whole case; non-trivial = an expression with "
                ">= 2 operators, or an expression in a non-print position, or a valueless case",
        "technique": "property-based differential testing (rapid): reference evaluator/interpreter written from the language definition vs the Go renderer",
        "level_text": PBT + "each case compares the renderer's bytes (or its error) with an independent reference interpreter",
        "level_note": "trusts the reference interpreter (harness/ref) and its reading of the statement; cells the statement leaves open are excluded and counted",
        "assumptions": ["cells the language leaves unspecified (division by zero, integers beyond 2^53, NaN/Inf, -0, keys() order, negative half-way round, identity equality of collections) are excluded and counted",
                        "'-0x..' is pinned invalid by the repository's own lexer test and is not generated"],
    },
    "C02": {
        "test": "TestC02", "level": "exploration", "crashy": True,
        "quick": {"shards": 8, "checks": 12000, "timeout": 900},
        "thorough": {"shards": 16, "checks": 25000, "timeout": 3400},
        "rule": "bundles of 1-3 files, 1-3 namespaces, up to 7 templates over the whole command grammar (text, special chars, literal, "
                "if/elseif/else, switch, for/foreach/ifempty, let value/content, call with data=all / data=$expr / value and content params / "
                "relative, qualified, aliased and name= callee names, css, log, msg, plural, recursion on a decreasing counter) with shadowing "
                "lets and loop variables; data satisfies the declared params; distinct by hash; non-trivial = the reference run executed a "
                "call, a shadowing let/loop, or left a block that had introduced a let",
        "technique": "property-based differential testing (rapid): reference interpreter with block scoping and call-data semantics vs the Go renderer",
        "level_text": PBT + "each case compares the renderer's bytes (or its error) with an independent reference interpreter",
        "level_note": "trusts the reference interpreter (harness/ref); same-block redefinition of a name is not generated (not valid Soy)",
        "assumptions": ["unspecified cells are excluded and counted as in C01"],
    },
    "C03": {
        "test": "TestC03", "level": "exploration", "crashy": True,
        "quick": {"shards": 8, "checks": 8000, "timeout": 900},
        "thorough": {"shards": 16, "checks": 60000, "timeout": 3400},
        "exhaustive_key": "exhaustive_grid_cases",
        "exhaustive_note": "shard 0 enumerates every single byte and every pair/triple of the five specials x 9 carriers x 4 mode classes x 5 chains (quick: a deterministic third of that grid); the random part is not exhaustive",
        "rule": "a value (strings over a weighted alphabet incl. the five specials, every byte, multi-byte and astral runes, long runs; ints, floats, "
                "bools, null, lists and maps holding such strings) printed between sentinels through a carrier (print, let content, param content, "
                "param value, data=all, data=$map, two calls deep, msg placeholder, re-printed let) under namespace x template x callee-namespace x "
                "callee-template autoescape attributes and a directive chain of length 0-3; non-trivial = the value's text contains a special "
                "character and the effective mode/chain is escaping",
        "technique": "property-based testing (rapid) with an invariant + decoder oracle on the framed output (no raw specials, every & starts a reference, decodes to the value) plus the exact reference model; exhaustive byte/pair/triple tier",
        "level_text": PBT + "the escaping invariant is checked on the implementation's own bytes with an independent decoder, and the whole output against the reference interpreter",
        "level_note": "trusts the decoder (9 reference spellings) and the effective-mode rule (namespace default, template override, callee's own mode)",
        "assumptions": ["NUL through escapeHtml/changeNewlineToBr/insertWordBreaks is not judged (U+FFFD replacement is neither required nor forbidden by the statement)",
                        "chains with two HTML-producing directives or truncate after one are not judged by the invariant"],
    },
    "C04": {
        "test": "TestC04", "level": "translation_validation", "needs_node": True,
        "quick": {"shards": 8, "checks": 3000, "timeout": 900},
        "thorough": {"shards": 16, "checks": 8000, "timeout": 3400},
        "rule": "bundles of the common subset (boolean operands for and/or/not, same-kind equality, no collection printing, no key-order dependence, "
                "ints within 2^53, directives noAutoescape/id/escapeHtml/truncate/changeNewlineToBr/insertWordBreaks) over the whole command grammar "
                "incl. scoping stress patterns, nested loops with loop functions, calls across files, globals, $ij, autoescape modes, msg and plural; "
                "each is translated with soyjs.Write (ES5) and executed in node with the same data; non-trivial = the program has control flow or a "
                "call, a print, and data",
        "technique": "differential / translation validation: property-based generation (rapid), Go render vs generated JavaScript executed in node, guarded by the reference interpreter",
        "level_text": "translation validation by execution: every generated program is translated and the translation's output compared byte for byte (quote reference spelling identified) with the Go renderer's",
        "level_note": "node v20 with a fresh vm context and soyjs/lib/soyutils.js per case; cases where the Go output differs from the reference interpreter are left to C01/C02 and counted",
        "assumptions": ["&quot; and &#34; are identified (also after re-escaping); /usr/bin/node is present (exit 2 otherwise)",
                        "cells the reference leaves unspecified and the two open findings (F13 negative half-way round, F14 astral truncate) are excluded and counted"],
    },
    "C05": {
        "test": "TestC05", "level": "exploration", "crashy": True, "memcap": True,
        "quick": {"shards": 8, "checks": 4000, "timeout": 900},
        "thorough": {"shards": 16, "checks": 60000, "timeout": 3400},
        "fuzz": [{"name": "FuzzParseFile", "time": "120s"}, {"name": "FuzzParseExpr", "time": "90s"}],
        "exhaustive_key": "exhaustive_dictionary_inputs",
        "exhaustive_note": "shard 0 enumerates every prefix of the repository's templates and every ordered pair of the ~200-fragment tag dictionary at file, template and nested-block level (closed and unclosed) and all pairs (thorough: triples) of the expression token dictionary",
        "rule": "byte strings from six families: prefixes of repository and generated templates, tag-dictionary sequences at three nesting levels, "
                "token deletions/duplications/swaps/replacements of valid files, random bytes incl. invalid UTF-8, expression-token sequences, "
                "tags with quoted attributes x hostile attribute values; every input is parsed twice (same tree or same error); plus stretch families "
                "pre + unit x k + close x k + post parsed at k and 8k (64 listed, 3 % random); "
                "non-trivial = the input is rejected and contains a tag opener (files) / is rejected (expressions) / is a stretch family",
        "technique": "property-based testing and fuzzing (rapid + exhaustive dictionary sweep + go native fuzz): returns tree xor error, no panic, deterministic step bound, time ratio under eightfold growth, watchdog-confirmed non-return, history replay for failures that need an earlier parse",
        "level_text": PBT + "each input must return exactly one of tree/error without panic within a linear step bound; a non-return is confirmed in a fresh process",
        "level_note": "step bound 12 steps/byte + 400 calibrated on the corpus (observed max 3/byte); scanner-goroutine crashes are attributed through the 'current case' file and confirmed by replay",
        "assumptions": ["time proportional to the input is read as a linear bound on scanner+parser steps (hook, build tag verif) and, for work outside those loops, as: eightfold input takes at most twentyfold time (judged only above 0.2 s, on three consecutive measurements)"],
    },
    "C06": {
        "test": "TestC06", "level": "exploration", "crashy": True, "memcap": True,
        "quick": {"shards": 8, "checks": 8000, "timeout": 900},
        "thorough": {"shards": 16, "checks": 60000, "timeout": 3400},
        "rule": "well-typed generated bundles whose expressions are wrapped in operators/functions/directives with no regard for types or "
                "arities (any value kind at any operand, unknown functions and directives, non-positive range steps, loop functions on "
                "non-loop values, missing $ij, duplicate template names, obligatory directives naming unknown or nil directives), data maps of "
                "arbitrary JSON shape; standalone expressions through EvalExpr; generated globals files; non-trivial = the call returned an "
                "error or the program carries at least one ill-typed mutation",
        "technique": "property-based robustness testing (rapid) with a watchdog: every call returns output or an error, no panic escapes, non-return confirmed in a fresh process",
        "level_text": PBT + "each case must return normally; panics are caught at the call site, non-returns by a watchdog and re-confirmed by replay",
        "level_note": "recursion guards and recursion counters are left intact (the property restricts recursion to data-bounded depth); range limits stay below 2000 so finite data stays finite in memory",
        "assumptions": ["bundles the compiler rejects are outside the domain and only counted"],
    },
    "C07": {
        "test": "TestC07", "level": "exploration", "crashy": True,
        "quick": {"shards": 8, "checks": 700, "timeout": 900},
        "thorough": {"shards": 16, "checks": 3000, "timeout": 3400},
        "rule": "valid bundles from the program generator (shadowing, data=all forwarding, content params, header or soydoc params, $ij) and, for "
                "each, every single-rule violation at every applicable site (use before definition, self-reference in a let's own definition, "
                "use after the defining block ended, loop variable after the loop / in ifempty / in its own list expression, undeclared name, "
                "unused let, unused param, let named ij, undeclared call param, dropped call param, unknown callee, soydoc+header params) plus "
                "valid shadow-after-use probes; the expected verdict of every mutant is recomputed by the reference checker; every case is "
                "non-trivial (it carries mutants); evaluations counts base bundles, counters report the mutants",
        "technique": "property-based testing (rapid) with exhaustive per-bundle mutation at every site; oracle = reference static checker (accept <=> valid) plus the unbound-lookup hook on accepted bundles",
        "level_text": PBT + "each bundle and each of its mutants is compiled and the verdict compared with an independent binding-based checker; accepted bundles are rendered with the unbound-lookup observer",
        "level_note": "trusts harness/ref/check.go; the run-time consequence is checked for let and loop variables only (a declared param may be absent through data=\"$map\")",
        "assumptions": ["data=\"all\" calls whose callee requires a param the caller cannot forward are not generated (the statement does not decide them)"],
    },
    "C08": {
        "test": "TestC08", "level": "exploration", "crashy": True,
        "quick": {"shards": 8, "checks": 1500, "timeout": 900},
        "thorough": {"shards": 16, "checks": 4000, "timeout": 3400},
        "rule": "histories of 4-25 (thorough 60) operations over one compiled bundle: renders of any template with its own data or with data of "
                "arbitrary shape (failing renders), renders with a message bundle, JavaScript generation with and without the bundle, and "
                "switches between five configurations of the process-wide registries (no / one / two obligatory print directives, a cancelling "
                "one, an unknown one; a custom function and directive installed); non-trivial = the history repeats a (template, data, "
                "configuration) triple after other operations",
        "technique": "stateful property-based testing (rapid) with history invariants: deep structural digests of registry, data, $ij and message bundle unchanged after every step; repeated operations give the first result",
        "level_text": PBT + "every step re-digests the compiled bundle and the caller's data reflectively (unexported fields included) and compares repeated renders byte for byte",
        "level_note": "the digest walks everything reachable from the registry, data maps, $ij and bundle; the process-wide registries are restored after each case",
        "assumptions": ["single-threaded histories (concurrency is C09)"],
    },
    "C09": {
        "test": "TestC09", "level": "exploration", "crashy": True, "race": True,
        "quick": {"shards": 4, "checks": 1, "timeout": 900},
        "thorough": {"shards": 8, "checks": 1, "timeout": 3400},
        "rule": "per shard 4 (thorough 12) generated bundles x 3 (thorough 6) configurations of G in {2..16} goroutines and GOMAXPROCS in {1..16} x 200 "
                "(thorough 1200) rounds per goroutine mixing renders of shared templates over shared data maps / $ij / message bundle, "
                "JavaScript generation and compilation of an independent bundle, under the race detector; every bundle is non-trivial "
                "(>= 2 goroutines render the same template over the same data map); evaluations counts bundles, counters report goroutine-rounds",
        "technique": "randomised concurrency testing: generated bundles exercised from G goroutines under go's race detector, outputs compared with the sequential run",
        "level_text": "exploration over the interleavings the Go scheduler produces; a race needing a rare interleaving can be missed - the weakest level among the checks",
        "level_note": "race detector reports are taken as sound without reproduction; output mismatches are confirmed by replaying the bundle for 3000 rounds",
        "assumptions": ["schedules are not controlled; coverage is by repetition under several GOMAXPROCS values"],
    },
    "C10": {
        "test": "TestC10", "level": "exploration",
        "quick": {"shards": 8, "checks": 2000, "timeout": 900},
        "thorough": {"shards": 16, "checks": 6000, "timeout": 3400},
        "rule": "messages whose placeholders collide on base names by construction ($x, $x_1, $x_2, $a.x, $b.x, the same variable with different "
                "directives, camel-case and digit names, arbitrary expressions incl. pairs differing only in parentheses, 17 HTML tags of every naming "
                "class, repeats), with and without a plural (any case set, subject a variable or a field), meanings and descriptions; each compiled 15 "
                "(thorough 40) more times, in variants (description changed, surrounded by other code and messages, extra file in both orders: id "
                "unchanged; meaning changed, text appended, plural case added, parts swapped: id changes with the content string) and for a share of "
                "cases in a child process; non-trivial = two placeholders share a base name or the message has a plural",
        "technique": "property-based metamorphic testing (rapid): determinism across recompiles and processes, (in)sensitivity relations on the id, and an independent implementation of the placeholder naming rule",
        "level_text": PBT + "ids are judged by relations (never by re-computing the fingerprint), names by an independent naming rule with hand-derived base names",
        "level_note": "the fingerprint function itself is anchored only by the repository's own known-answer tests; ids of non-plural messages are compared on the unbraced content string (the official algorithm's definition)",
        "assumptions": ["base names for the generator's placeholder pool are written out by hand from the official rule"],
    },
    "C11": {
        "test": "TestC11", "level": "exploration", "needs_node": True, "needs_extractor": True,
        "quick": {"shards": 8, "checks": 700, "timeout": 900},
        "thorough": {"shards": 16, "checks": 2500, "timeout": 3400},
        "rule": "bundles of 1-3 messages from the colliding-placeholder generator (plurals mostly [case 1, default], some not representable in PO) x "
                "catalogue in {identity, reversing, rotating, partial} x locale in {en (2 forms), ja (1), cs (3)} x plural subject in {0,1,2,3,5,11,21}; "
                "pipeline: real xgettext-soy binary -> po.Parse -> fill msgstr -> pomsg.Dir -> Go render with the bundle and generated JavaScript in "
                "node; non-trivial = >= 2 distinct placeholders and a non-identity catalogue",
        "technique": "property-based end-to-end round trip (rapid): extraction by the real binary, generated translations, render compared with a prediction from the model; Go vs JavaScript differential",
        "level_text": PBT + "every case runs the whole extract -> translate -> load -> render pipeline and compares with a model-built prediction (identity catalogue also against the catalogue-free render)",
        "level_note": "msgid / msgid_plural are predicted from the model with the independent naming rule of C10; unrepresentable plurals must make the extractor exit non-zero",
        "assumptions": ["node and the extractor binary (built by the driver from /repo) are available"],
    },
    "C12": {
        "test": "TestC12", "level": "fault_enumeration",
        "quick": {"shards": 8, "checks": 2500, "timeout": 900},
        "thorough": {"shards": 16, "checks": 4000, "timeout": 3400},
        "rule": "for each generated program (whole command grammar, data satisfying the params) the fault-free run's W write calls and B bytes are "
                "enumerated completely: a failing writer at every call index (dead and transient variants) and a short writer at every byte offset "
                "(sampled above 2000 bytes); non-trivial = a program with a fault point that is neither the first nor the last write",
        "technique": "fault injection enumerated per generated program (rapid generates the programs; every write index and byte offset is tried)",
        "level_text": "exhaustive fault enumeration per program over generated programs: error surfaced, accepted bytes are a prefix, nil only if everything was accepted",
        "level_note": "the fault-free output is the implementation's own (metamorphic); programs come from the C02 generator",
        "assumptions": ["for a transient failure only the bytes accepted before the failure are required to be a prefix"],
    },
    "C13": {
        "test": "TestC13", "level": "exploration",
        "quick": {"shards": 8, "checks": 600, "timeout": 900},
        "thorough": {"shards": 16, "checks": 2500, "timeout": 3400},
        "rule": "bundles of 1-3 files with many cross-file calls (ES6 imports), messages with colliding placeholder names, map literals, optionally one "
                "injected compile error; each compiled 12 (thorough 30) more times in-process, under every permutation of file order (exhaustive up "
                "to 4 files) and, for a deterministic share of cases, in 2 child processes; the artefact compared is accept/reject + error text + "
                "message ids and placeholder names + rendered outputs + JavaScript per file x {ES5, ES6} x {no bundle, bundle}; non-trivial = a "
                "file with >= 2 ES6 imports, or suffixed placeholder names, or a map literal with >= 2 keys",
        "technique": "property-based testing (rapid) with a repetition / process / permutation metamorphic oracle on a digest of every compile artefact",
        "level_text": PBT + "each bundle's complete artefact must be byte-identical across repetitions, processes and file orders",
        "level_note": "in-process repetition relies on Go re-randomising map iteration per loop; child processes re-run the same test binary",
        "assumptions": ["with two or more independent injected errors the error text may depend on file order: at most one error is injected"],
    },
    "C14": {
        "test": "TestC14", "level": "translation_validation", "needs_node": True,
        "quick": {"shards": 8, "checks": 1400, "timeout": 900},
        "thorough": {"shards": 16, "checks": 6000, "timeout": 3400},
        "rule": "closed bundles (namespaces of 1-4 segments, one or two files) that print 1-6 literal strings - single ASCII bytes, pieces from a hostile "
                "alphabet (quotes, backslashes, line terminators U+2028/2029, </script>, ]]>, comment markers, NUL and other controls, BOM, astral and "
                "unassigned code points), arbitrary Unicode strings, runs of 100-3000 repetitions - each placed as raw text, literal block, string literal "
                "(plain or \\u-escaped), map key, map value, list item, css name, msg text, string global, param content or switch case; non-trivial = a "
                "literal contains a character that needs escaping inside a JavaScript string",
        "technique": "translation validation by execution: property-based generation (rapid); node parses the ES5 and ES6 output, typeof of every qualified name, and the returned string equals the generator's own concatenation of the literals",
        "level_text": "every generated file must parse (ES5 script and ES6 module), define each template as a function under its qualified name, and reproduce every literal character exactly when executed",
        "level_note": "the expected string is computed by the generator (and cross-checked against the reference interpreter), independent of both backends; ES6 output is parsed but not linked",
        "assumptions": ["raw template text cannot contain braces or comment openers (they are replaced before placement); namespace segments are not JavaScript reserved words"],
    },
    "C15": {
        "test": "TestC15", "level": "exploration",
        "quick": {"shards": 8, "checks": 800, "timeout": 900},
        "thorough": {"shards": 16, "checks": 20000, "timeout": 3400},
        "exhaustive_key": "exhaustive_runs_x_neighbours",
        "exhaustive_note": "every comment-free text run over the 13-character alphabet up to length 4 (thorough: 5) between each of 8 neighbour kinds is enumerated (partitioned over the shards); the random part (long runs, comments, literals) is not exhaustive",
        "rule": "L1: text runs over {a < > space tab CR LF / e-acute NBSP U+2028 VT FF} between 8 kinds of neighbour (template edges, prints, {sp}, {nil}, block "
                "edges, calls, literals), exhaustively up to the length bound plus random runs up to 60 (thorough 200) characters; L2: sequences of "
                "text pieces, line comments and block comments; L3: literal blocks with arbitrary content and special-character commands; "
                "non-trivial (L1) = the run has a line break and a non-whitespace character; L2/L3 cases are all non-trivial",
        "technique": "exhaustive enumeration of short inputs plus property-based testing (rapid) against a reference normaliser transcribed from the statement",
        "level_text": "exhaustive for runs up to the length bound, generated-input search beyond it; exact equality with the reference normaliser for comment-free text",
        "level_note": "trusts ref.NormalizeText (25 lines); at a comment boundary only what the statement fixes is judged (no comment text in the output, non-whitespace text intact, ://-text verbatim)",
        "assumptions": ["join spacing where a comment separates two text pieces is not judged"],
    },
    "C16": {
        "test": "TestC16", "level": "exploration", "needs_node": True,
        "quick": {"shards": 8, "checks": 4000, "timeout": 900},
        "thorough": {"shards": 16, "checks": 40000, "timeout": 3400},
        "rule": "strings (arbitrary Unicode, arbitrary bytes incl. invalid UTF-8 on the Go side, pieces from a hostile alphabet, runs of 50-2000 repetitions) "
                "and nested values (json) through one directive (escapeUri, escapeJsString, json, changeNewlineToBr, insertWordBreaks, truncate with limits "
                "around the value's length and all ellipsis settings), one case in three through the JavaScript counterpart in node, truncate also "
                "chained into a second directive; non-trivial = the value contains what the directive must transform, or its length is within 3 of the limit",
        "technique": "property-based testing (rapid) with independent decoders: query-unescape, evaluation between quotes in node, JSON parse with exact numbers, HTML reference decoding, structural truncate predicate",
        "level_text": PBT + "each output is decoded by an independent decoder (Go standard library or node) and compared with the input; structural predicates for break insertion and truncation",
        "level_note": "Go lengths are characters, JavaScript lengths UTF-16 units; the sub-delimiters ! * ' ( ) that encodeURIComponent keeps count as URL-safe",
        "assumptions": ["NUL through the HTML-producing directives is not judged; values that JavaScript or JSON cannot represent (invalid UTF-8, integers beyond 2^53) are excluded on that side and counted",
                        "open finding F34 (JavaScript insertWordBreaks splits surrogate pairs) is excluded by construction"],
    },
    "C17": {
        "test": "TestC17", "level": "exploration", "crashy": True, "memcap": True,
        "quick": {"shards": 8, "checks": 6000, "timeout": 900},
        "thorough": {"shards": 16, "checks": 80000, "timeout": 3400},
        "fuzz": [{"name": "FuzzExprRoundTrip", "time": "120s"}],
        "rule": "arbitrary (not necessarily well-typed) expression trees up to depth 4 (thorough 6) over every operator, literal spelling (escaped strings, "
                "negative and hexadecimal integers, floats in fraction and exponent form), access form, function call, list and map literal "
                "(keys needing escapes), printed with minimal or redundant parentheses; one case in five as a whole print command with a "
                "directive chain; non-trivial = some operator has an operand of lower or equal precedence (parentheses matter)",
        "technique": "property-based round-trip testing (rapid): parse -> print -> parse structural equality, plus parser-vs-generator-tree equality",
        "level_text": PBT + "both the round trip and the first parse against the generator's own tree must agree structurally",
        "level_note": "trees are compared after conversion to the harness model (positions and source spelling dropped); the mutual nesting of ?: and ? : is always written with parentheses",
        "assumptions": [],
    },
    "C18": {
        "test": "TestC18", "level": "exploration", "crashy": True, "memcap": True,
        "quick": {"shards": 6, "checks": 900, "timeout": 900, "shrinktime": "30s"},
        "thorough": {"shards": 16, "checks": 3000, "timeout": 3400, "shrinktime": "60s"},
        "rule": "sequences of 1-30 (thorough 80) parses per case drawn from the C05 families plus complete expressions followed by trailing tokens, "
                "through parse.SoyFile, parse.Expr and soy.ParseGlobals; non-trivial = the sequence has trailing tokens after a complete "
                "expression or an error inside a quoted attribute expression",
        "technique": "property-based testing (rapid) over parse histories with a goroutine-dump invariant (no scanner frame after a bounded settle)",
        "level_text": PBT + "after each sequence the goroutine dump must contain no scanner frame beyond the baseline and the goroutine count must be back",
        "level_note": "settle bound 2 s; a leaked scanner blocks forever on its channel so the bound cannot produce a false alarm unless the machine stalls a runnable goroutine for 2 s",
        "assumptions": [],
    },
    "C19": {
        "test": "TestC19", "level": "exploration",
        "quick": {"shards": 8, "checks": 1500, "timeout": 900},
        "thorough": {"shards": 16, "checks": 4000, "timeout": 3400},
        "rule": "valid files built one construct per line (9 block kinds nested up to depth 2, 16 simple constructs, optional header lines, LF or CRLF, 5 file "
                "names); parse side: one of 9 fault kinds inserted before EVERY body line in turn; render side: a failing print, or a call chain of "
                "depth 1-3 across files ending in a failing print, inserted before EVERY executed body line in turn; non-trivial = the body has "
                ">= 2 lines (fault positions that are neither first nor last exist); counters report the fault positions tried",
        "technique": "fault injection enumerated over every line of generated files (rapid generates the files) with an exact position oracle",
        "level_text": PBT + "per file exhaustive over fault lines: file name, line within the input, line of the fault (exact for single-line faults), and the same numbers in the message",
        "level_note": "for unterminated constructs any line from the opening line to the end is accepted; for render errors the line of an enclosing block command is also accepted",
        "assumptions": ["fault kinds were chosen to be errors at every position (e.g. a condition-less {if}, not {else}, which is legal inside an if block)"],
    },
    "C20": {
        "test": "TestC20", "level": "exploration",
        "quick": {"shards": 4, "checks": 20000, "timeout": 600},
        "thorough": {"shards": 16, "checks": 60000, "timeout": 3000},
        "rule": "pairs of Go values built from generated recipes (every reflect kind the converter accepts, nil "
                "pointers/slices/maps, embedded/unexported fields, marshalers, both struct options, 4 time formats) "
                "together with the Soy value each must convert to; distinct by hash of the recipe pair; non-trivial = "
                "a value nests >= 2 levels or the pair mixes kinds",
        "technique": "property-based testing (rapid): generated Go values with a constructed expected value; idempotence, symmetry and truthiness laws over generated pairs",
        "level_text": "generated-input search: every case checks conversion against an independently constructed expected value and the value laws on a pair; held on all generated cases, no proof of absence",
        "level_note": "trusts the recipe builder's expected values (written from the statement) and Go's reflect/time packages",
        "assumptions": ["uint64 above MaxInt64, arrays, channels, funcs and non-string map keys are outside the converter's documented domain and are not generated",
                        "an empty TimeFormat is not judged (doc and code disagree; not part of the statement)"],
    },
}

NOT_APPLICABLE = {}
