"""Per-property configuration of the driver: which Go test decides the property,
how the quick and thorough tiers are sized, and the text that goes into the evidence."""

PBT = "generated-input search with pgregory.net/rapid: held on every generated case, no proof of absence; "

CHECKS = {
    "C01": {
        "test": "TestC01", "level": "exploration", "crashy": True,
        "quick": {"shards": 8, "checks": 8000, "timeout": 900},
        "thorough": {"shards": 16, "checks": 40000, "timeout": 3400},
        "rule": "small bundles whose commands place generated, well-typed expression trees (all operators, literal forms, data-reference "
                "forms, $ij, globals, functions; minimal or redundant parentheses; tight or spaced operators) in the syntactic positions that "
                "take an expression, plus deliberately valueless prints; distinct by hash of the whole case; non-trivial = an expression with "
                ">= 2 operators, or an expression in a non-print position, or a valueless case",
        "technique": "property-based differential testing (rapid): reference evaluator/interpreter written from the language definition vs the Go renderer",
        "level_text": PBT + "each case compares the renderer's bytes (or its error) with an independent reference interpreter",
        "level_note": "trusts the reference interpreter (harness/ref) and its reading of the statement; cells the statement leaves open are excluded and counted",
        "assumptions": ["cells the language leaves unspecified (division by zero, integers beyond 2^53, NaN/Inf, -0, keys() order, negative half-way round, identity equality of collections) are excluded and counted",
                        "'-0x..' is pinned invalid by the repository's own lexer test and is not generated"],
    },
    "C02": {
        "test": "TestC02", "level": "exploration", "crashy": True,
        "quick": {"shards": 8, "checks": 6000, "timeout": 900},
        "thorough": {"shards": 16, "checks": 25000, "timeout": 3400},
        "rule": "bundles of 1-3 files, 1-3 namespaces, up to 7 templates over the whole command grammar (text, special chars, literal, "
                "if/elseif/else, switch, for/foreach/ifempty, let value/content, call with data=all / data=$expr / value and content params / "
                "relative, qualified, aliased and name= callee names, css, log, msg, plural, recursion on a decreasing counter) with shadowing "
                "lets and loop variables; data satisfies the declared params; distinct by hash; non-trivial = the reference run executed a "
                "call, a shadowing let/loop, or left a block that had introduced a let",
        "technique": "property-based differential testing (rapid): reference interpreter with block scoping and call-data semantics vs the Go renderer",
        "level_text": PBT + "each case compares the renderer's bytes (or its error) with an independent reference interpreter",
        "level_note": "trusts the reference interpreter (harness/ref); same-block redefinition of a name is not generated (not valid Soy)",
        "assumptions": ["unspecified cells are excluded and counted as in C01"],
    },
    "C20": {
        "test": "TestC20", "level": "exploration",
        "quick": {"shards": 4, "checks": 4000, "timeout": 600},
        "thorough": {"shards": 16, "checks": 60000, "timeout": 3000},
        "rule": "pairs of Go values built from generated recipes (every reflect kind the converter accepts, nil "
                "pointers/slices/maps, embedded/unexported fields, marshalers, both struct options, 4 time formats) "
                "together with the Soy value each must convert to; distinct by hash of the recipe pair; non-trivial = "
                "a value nests >= 2 levels or the pair mixes kinds",
        "technique": "property-based testing (rapid): generated Go values with a constructed expected value; idempotence, symmetry and truthiness laws over generated pairs",
        "level_text": "generated-input search: every case checks conversion against an independently constructed expected value and the value laws on a pair; held on all generated cases, no proof of absence",
        "level_note": "trusts the recipe builder's expected values (written from the statement) and Go's reflect/time packages",
        "assumptions": ["uint64 above MaxInt64, arrays, channels, funcs and non-string map keys are outside the converter's documented domain and are not generated",
                        "an empty TimeFormat is not judged (doc and code disagree; not part of the statement)"],
    },
}

NOT_APPLICABLE = {}
