"""Per-property configuration of the driver: which Go test decides the property,
how the quick and thorough tiers are sized, and the text that goes into the evidence."""

CHECKS = {
    "C20": {
        "test": "TestC20", "level": "exploration",
        "quick": {"shards": 4, "checks": 4000, "timeout": 600},
        "thorough": {"shards": 16, "checks": 60000, "timeout": 3000},
        "rule": "pairs of Go values built from generated recipes (every reflect kind the converter accepts, nil "
                "pointers/slices/maps, embedded/unexported fields, marshalers, both struct options, 4 time formats) "
                "together with the Soy value each must convert to; distinct by hash of the recipe pair; non-trivial = "
                "a value nests >= 2 levels or the pair mixes kinds",
        "technique": "property-based testing (rapid): generated Go values with a constructed expected value; idempotence, symmetry and truthiness laws over generated pairs",
        "level_text": "generated-input search: every case checks conversion against an independently constructed expected value and the value laws on a pair; held on all generated cases, no proof of absence",
        "level_note": "trusts the recipe builder's expected values (written from the statement) and Go's reflect/time packages",
        "assumptions": ["uint64 above MaxInt64, arrays, channels, funcs and non-string map keys are outside the converter's documented domain and are not generated",
                        "an empty TimeFormat is not judged (doc and code disagree; not part of the statement)"],
    },
}

NOT_APPLICABLE = {}
